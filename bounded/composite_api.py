"""C12 - BOUNDED check that composite objects stay consistent with their point masses.

Two parts, both on the REAL classes of the tree under test (VERIF_REPO), judged with the harness's own arithmetic:

 (A) initial states.  For many global-generator seeds, boxes (2-D / 3-D, cubic and cuboid) and molecule parameters the
     real RandomInputHandler + DipoleRandomNodeCreator / WaterRandomNodeCreator generate molecules.  Checked per
     molecule: number of members, node weights == 1 / members, every position in [0, L), and the stored molecule
     position == weighted barycentre of the members taken as nearest images of the first member (own minimum-image
     arithmetic; tolerance 1e-9 * L).  Molecules straddling a periodic boundary are counted.

 (B) event histories by direct calls, the way the mediator drives the handlers.  The global state is kept in a small
     store of the harness (identifier -> position, velocity, time stamp); in-states are extracted from it as Node/Unit
     branches exactly like TreeStateHandler.extract_from_global_state builds them (copies; root -> one leaf for a leaf
     identifier, root -> all leaves for a root identifier; leaf weights read from the Node class of the tree under
     test), out-states are written back.  Worlds: 1..3 objects of 2 or 3 (level 2 also 4, 5) point masses, hand-built
     (biased to straddle boundaries) or produced by the real creators.  Histories: InitialChainStartOfRunEventHandler
     (molecule or atom motion), then a random mix of RootLeafUnitActiveSwitcher (both directions),
     TwoLeafUnitEventHandler (DisplacedEvenPower / InversePower / HardSphere potential, target in the same or another
     object), RootUnitActiveTwoLeafUnitEventHandler (molecule -> molecule), two thin harness subclasses that only draw
     the event time and then call the real _exchange_velocity / _pass_composite_object_velocity (any velocity
     direction), and a persistent real end-of-chain handler (periodic direction; sequential direction in 2-D) whose
     candidate time competes with the other candidates like in the scheduler.
     After EVERY send_out_state, on the returned branches and on the whole store after the write-back:
       c1 velocity and time stamp are present together,
       c2 no member moves  =>  composite velocity None and time stamp None (strict: 1e-17 left over is a violation);
          a member moves   =>  composite velocity present,
       c3 composite velocity == sum of (1 / members) * member velocity over the moving members (own Fraction
          arithmetic; exact equality for 2 members with axis-parallel single-speed histories where every operation of
          the handlers is exact; otherwise |difference| <= 1e-12 * speed),
       c4 every moving unit in the out-state carries the event time as time stamp (quotient and remainder equal),
       c5 composite position advanced to the event time == barycentre of the member positions advanced to the event
          time with their own stamps, nearest images (tolerance 1e-9 * L per direction),
       c6 every position in [0, L),
       c7 two copies of one unit in an out-state (two branches of one object) agree exactly.
     An exception escaping a handler call whose preconditions the harness guarantees is reported as a violation;
     exceptions / infinite or too distant times of a *potential* only reject that candidate (like a trashed event).
     A history ends early when a molecule has been stretched beyond 0.3 L (nearest images would become ambiguous;
     single steps are bounded by 0.12 L)."""
import json
import math
import os
import random
import sys
import types
from fractions import Fraction

REPO = os.environ.get("VERIF_REPO", "/repo")
VELOCITY_TOLERANCE = 1.0e-12      # relative to the speed of the moving members
POSITION_TOLERANCE = 1.0e-9       # relative to the box length of the direction
STRETCH_LIMIT = 0.3               # fraction of the box length; beyond it a history is ended
STEP_FRACTION = 0.04              # one "unit" of displacement per event, fraction of the smallest box length
MAX_VIOLATIONS = 8


# ----------------------------------------------------------------------------------------------------------- imports
def load():
    sys.path.insert(0, REPO)
    J = types.SimpleNamespace()
    import jellyfysh.setting as setting
    from jellyfysh.setting import hypercubic_setting, hypercuboid_setting
    from jellyfysh.base.node import Node
    from jellyfysh.base.unit import Unit
    from jellyfysh.base.particle import Particle
    from jellyfysh.base.time import Time
    from jellyfysh.event_handler.abstracts.abstracts import SingleActiveLeafUnitEventHandler
    from jellyfysh.event_handler.abstracts.composite_objects import CompositeObjectsLifting
    from jellyfysh.event_handler.initial_chain_start_of_run_event_handler import InitialChainStartOfRunEventHandler
    from jellyfysh.event_handler.root_leaf_unit_active_switcher import RootLeafUnitActiveSwitcher
    from jellyfysh.event_handler.two_leaf_unit_event_handler import TwoLeafUnitEventHandler
    from jellyfysh.event_handler.root_unit_active_two_leaf_unit_event_handler import \
        RootUnitActiveTwoLeafUnitEventHandler
    from jellyfysh.event_handler.single_independent_active_periodic_direction_end_of_chain_event_handler import \
        SingleIndependentActivePeriodicDirectionEndOfChainEventHandler
    from jellyfysh.event_handler.single_independent_active_sequential_direction_end_of_chain_event_handler import \
        SingleIndependentActiveSequentialDirectionEndOfChainEventHandler
    from jellyfysh.potential.inverse_power_potential import InversePowerPotential
    from jellyfysh.potential.displaced_even_power_potential import DisplacedEvenPowerPotential
    from jellyfysh.potential.hard_sphere_potential import HardSpherePotential
    from jellyfysh.input_output_handler.input_handler.random_input_handler import RandomInputHandler
    from jellyfysh.input_output_handler.input_handler.charge_values import ChargeValues
    from jellyfysh.input_output_handler.input_handler.random_node_creator.dipole_random_node_creator import \
        DipoleRandomNodeCreator
    from jellyfysh.input_output_handler.input_handler.random_node_creator.water_random_node_creator import \
        WaterRandomNodeCreator

    class GenericLeafLift(SingleActiveLeafUnitEventHandler):
        """Harness-side stand-in for any two-leaf-unit factor: the time displacement is drawn by the harness, the
        time slicing and the velocity transfer are the real base-class code (as in TwoLeafUnitEventHandler)."""

        def __init__(self, time_displacement):
            super().__init__()
            self._time_displacement = time_displacement

        def send_event_time(self, in_state):
            self._store_in_state(in_state)
            self._construct_leaf_cnodes()
            self._extract_active_leaf_unit()
            assert len(self._leaf_cnodes) == 2
            self._event_time = self._active_leaf_unit.time_stamp + self._time_displacement
            self._time_slice_all_units_in_state()
            return self._event_time

        def send_out_state(self):
            self._exchange_velocity(self._leaf_cnodes[self._active_leaf_unit_index],
                                    self._leaf_cnodes[self._active_leaf_unit_index ^ 1])
            return self._state

    class GenericRootLift(CompositeObjectsLifting):
        """Harness-side stand-in for any composite-objects lifting: the time displacement is drawn by the harness,
        the out-state is computed like in RootUnitActiveTwoLeafUnitEventHandler.send_out_state."""

        def __init__(self, time_displacement):
            super().__init__()
            self._time_displacement = time_displacement

        def send_event_time(self, in_state):
            self._event_time = in_state[0].value.time_stamp + self._time_displacement
            return self._event_time

        def send_out_state(self, composite_objects_root_cnodes):
            self._store_in_state(composite_objects_root_cnodes)
            self._time_slice_all_units_in_state()
            self._construct_leaf_cnodes()
            self._construct_leaf_units_of_composite_objects()
            self._pass_composite_object_velocity()
            return self._state

    J.setting, J.hypercubic_setting, J.hypercuboid_setting = setting, hypercubic_setting, hypercuboid_setting
    J.Node, J.Unit, J.Particle, J.Time = Node, Unit, Particle, Time
    J.Start, J.Switcher = InitialChainStartOfRunEventHandler, RootLeafUnitActiveSwitcher
    J.TwoLeaf, J.RootTwoLeaf = TwoLeafUnitEventHandler, RootUnitActiveTwoLeafUnitEventHandler
    J.PeriodicEOC = SingleIndependentActivePeriodicDirectionEndOfChainEventHandler
    J.SequentialEOC = SingleIndependentActiveSequentialDirectionEndOfChainEventHandler
    J.InversePower, J.Bond, J.HardSphere = InversePowerPotential, DisplacedEvenPowerPotential, HardSpherePotential
    J.RandomInputHandler, J.ChargeValues = RandomInputHandler, ChargeValues
    J.DipoleCreator, J.WaterCreator = DipoleRandomNodeCreator, WaterRandomNodeCreator
    J.GenericLeafLift, J.GenericRootLift = GenericLeafLift, GenericRootLift
    return J


def init_box(J, lengths, beta=1.0):
    J.setting.reset()
    if len(set(lengths)) == 1:
        J.hypercubic_setting.HypercubicSetting(beta=beta, dimension=len(lengths), system_length=lengths[0])
    else:
        J.hypercuboid_setting.HypercuboidSetting(system_lengths=list(lengths), beta=beta, dimension=len(lengths))


# ------------------------------------------------------------------------------------------------- own arithmetic
def fold(x, length):
    r = x % length
    return 0.0 if r >= length else r


def min_image(d, length):
    return d - length * round(d / length)


def norm(v):
    return math.sqrt(math.fsum(c * c for c in v))


class Recorder(object):
    def __init__(self):
        self.evaluations = 0
        self.violations = []
        self.stats = {}

    def count(self, key, n=1):
        self.stats[key] = self.stats.get(key, 0) + n

    def bad(self, what, **details):
        self.count("violations_seen")
        if len(self.violations) < MAX_VIOLATIONS:
            self.violations.append(dict(what=what, **details))

    @property
    def full(self):
        return len(self.violations) >= MAX_VIOLATIONS


def stamp_of(time_stamp):
    return None if time_stamp is None else (time_stamp.quotient, time_stamp.remainder)


def advanced(record, event_time, lengths):
    """Position of the unit record advanced to the event time with the unit's own velocity and time stamp."""
    position, velocity, stamp = record
    if velocity is None or stamp is None or event_time is None:
        return list(position)
    dt = (event_time[0] - stamp[0]) + (event_time[1] - stamp[1])
    return [fold(position[d] + velocity[d] * dt, lengths[d]) for d in range(len(lengths))]


def check_unit(rec, info, identifier, record, event_time, lengths, stamps_must_equal_event_time):
    position, velocity, stamp = record
    rec.evaluations += 1
    if (velocity is None) != (stamp is None):
        rec.bad("c1: velocity and time stamp of a unit are not present together", unit=list(identifier),
                velocity=velocity, time_stamp=stamp, **info)
    rec.evaluations += 1
    if any(not (0.0 <= position[d] < lengths[d]) for d in range(len(lengths))):
        rec.bad("c6: position outside [0, L)", unit=list(identifier), position=list(position), **info)
    if velocity is not None and stamps_must_equal_event_time:
        rec.evaluations += 1
        if stamp is not None and stamp != event_time:
            rec.bad("c4: moving unit in the out-state does not carry the event time as time stamp",
                    unit=list(identifier), time_stamp=stamp, event_time=event_time, **info)


def check_object(rec, info, index, root, leaves, event_time, lengths, exact):
    """c2, c3, c5 for one composite object given the records (position, velocity, stamp) of root and all leaves."""
    dimension = len(lengths)
    members = len(leaves)
    moving = [leaf for leaf in leaves if leaf[1] is not None]
    rec.evaluations += 1
    if not moving:
        if root[1] is not None or root[2] is not None:
            rec.bad("c2: composite object keeps a velocity / time stamp although none of its point masses moves",
                    object=index, velocity=root[1], time_stamp=root[2], **info)
    elif root[1] is None:
        rec.bad("c2: composite object has no velocity although point masses move", object=index,
                member_velocities=[leaf[1] for leaf in leaves], **info)
    else:
        rec.evaluations += 1
        speed = max(norm(leaf[1]) for leaf in moving)
        expected = [sum(Fraction(leaf[1][d]) for leaf in moving) / members for d in range(dimension)]
        difference = [Fraction(root[1][d]) - expected[d] for d in range(dimension)]
        if exact:
            rec.count("c3_exact_comparisons")
            wrong = any(difference[d] != 0 for d in range(dimension))
        else:
            wrong = any(abs(float(difference[d])) > VELOCITY_TOLERANCE * speed for d in range(dimension))
        if wrong:
            rec.bad("c3: composite velocity is not the weighted sum of the velocities of its moving point masses"
                    + (" (exact comparison)" if exact else ""), object=index, velocity=root[1],
                    expected=[float(e) for e in expected], member_velocities=[leaf[1] for leaf in leaves], **info)
    rec.evaluations += 1
    root_position = advanced(root, event_time, lengths)
    leaf_positions = [advanced(leaf, event_time, lengths) for leaf in leaves]
    reference = leaf_positions[0]
    weight = 1.0 / members
    barycentre = [fold(reference[d] + math.fsum(weight * min_image(p[d] - reference[d], lengths[d])
                                                for p in leaf_positions), lengths[d]) for d in range(dimension)]
    off = [min_image(root_position[d] - barycentre[d], lengths[d]) for d in range(dimension)]
    if any(abs(off[d]) > POSITION_TOLERANCE * lengths[d] for d in range(dimension)):
        rec.bad("c5: composite position (advanced to the event time) is not the nearest-image barycentre of its "
                "point masses", object=index, position=root_position, barycentre=barycentre, difference=off,
                member_positions=leaf_positions, event_time=event_time, **info)


def stretch(leaves, lengths):
    """Largest pairwise nearest-image component separation of the members, as a fraction of the box length."""
    worst = 0.0
    for a in range(len(leaves)):
        for b in range(a + 1, len(leaves)):
            for d in range(len(lengths)):
                worst = max(worst, abs(min_image(leaves[a][0][d] - leaves[b][0][d], lengths[d])) / lengths[d])
    return worst


# ------------------------------------------------------------------------------------------------ the global state
class World(object):
    """The harness's global state; extraction mirrors TreeStateHandler.extract_from_global_state."""

    def __init__(self, J, lengths, physical_roots):
        self.J = J
        self.lengths = list(lengths)
        self.objects = len(physical_roots)
        self.members = len(physical_roots[0].children)
        self.state = {}
        self.charge = {}
        self.weight = {}
        for k, root_node in enumerate(physical_roots):
            self._add((k,), root_node)
            for i, child in enumerate(root_node.children):
                self._add((k, i), child)

    def _add(self, identifier, node):
        self.state[identifier] = [list(node.value.position), None, None]
        self.charge[identifier] = node.value.charge
        self.weight[identifier] = node.weight

    def _cnode(self, identifier):
        position, velocity, stamp = self.state[identifier]
        unit = self.J.Unit(identifier, list(position), self.charge[identifier],
                           None if velocity is None else list(velocity),
                           None if stamp is None else self.J.Time(stamp[0], stamp[1]))
        return self.J.Node(unit, self.weight[identifier])

    def extract(self, identifier):
        identifier = tuple(identifier)
        root_cnode = self._cnode(identifier[:1])
        if len(identifier) == 2:
            root_cnode.add_child(self._cnode(identifier))
        else:
            for i in range(self.members):
                root_cnode.add_child(self._cnode(identifier + (i,)))
        return root_cnode

    def insert(self, cnodes):
        for cnode in cnodes:
            unit = cnode.value
            self.state[tuple(unit.identifier)] = [list(unit.position),
                                                  None if unit.velocity is None else list(unit.velocity),
                                                  stamp_of(unit.time_stamp)]
            self.insert(cnode.children)

    def record(self, identifier):
        return tuple(self.state[identifier])

    def leaves(self, k):
        return [self.record((k, i)) for i in range(self.members)]

    def active_identifiers(self):
        """Independent active units: the object when all of its members move, else the moving members."""
        result = []
        for k in range(self.objects):
            moving = [(k, i) for i in range(self.members) if self.state[(k, i)][1] is not None]
            if len(moving) == self.members:
                result.append((k,))
            else:
                result.extend(moving)
        return result


def check_world(rec, info, world, event_time, exact):
    for identifier in world.state:
        check_unit(rec, info, identifier, world.record(identifier), event_time, world.lengths, False)
    for k in range(world.objects):
        check_object(rec, info, k, world.record((k,)), world.leaves(k), event_time, world.lengths, exact)


def check_out_state(rec, info, world, out_state, event_time, exact):
    seen = {}

    def walk(cnode):
        unit = cnode.value
        record = (list(unit.position), None if unit.velocity is None else list(unit.velocity),
                  stamp_of(unit.time_stamp))
        identifier = tuple(unit.identifier)
        check_unit(rec, info, identifier, record, event_time, world.lengths, True)
        if identifier in seen:
            rec.evaluations += 1
            if seen[identifier] != record:
                rec.bad("c7: two copies of one unit in the out-state differ", unit=list(identifier),
                        first=seen[identifier], second=record, **info)
        else:
            seen[identifier] = record
        for child in cnode.children:
            walk(child)
        return record

    for root_cnode in out_state:
        root_record = walk(root_cnode)
        if len(root_cnode.children) == world.members:
            leaf_records = [(list(c.value.position), None if c.value.velocity is None else list(c.value.velocity),
                             stamp_of(c.value.time_stamp)) for c in root_cnode.children]
            check_object(rec, dict(info, where=info["where"] + " [returned branch]"), root_cnode.value.identifier[0],
                         root_record, leaf_records, event_time, world.lengths, exact)


# ------------------------------------------------------------------------------------------------------ part (A)
def creator_for(J, rng, kind, lengths, small):
    """A real random node creator with drawn parameters; `small` keeps molecules short for the histories of (B)."""
    shortest = min(lengths)
    if kind == "dipole":
        high = rng.uniform(0.02, 0.2 if small else 0.4) * shortest
        low = rng.choice([0.0, rng.uniform(0.0, 1.0) * high])
        values = [J.ChargeValues([1.0, -1.0], "charge")] if rng.random() < 0.7 else []
        parameters = {"min_initial_dipole_separation": low, "max_initial_dipole_separation": high}
        return J.DipoleCreator(charge_values=values, **parameters), parameters
    bond = rng.uniform(0.02, 0.12 if small else 0.2) * shortest
    angle = rng.choice([1.9764, rng.uniform(1.0, 2.6)])
    values = [J.ChargeValues([0.41, -0.82, 0.41], "charge")] if rng.random() < 0.7 else []
    parameters = {"bond_length": bond, "bond_angle": angle}
    return J.WaterCreator(charge_values=values, **parameters), parameters


def draw_lengths(rng, shipped=False):
    dimension = rng.choice([2, 3, 3])
    if shipped:
        return [10.0] * 3
    base = rng.choice([1.0, 2.0, 10.0, rng.uniform(0.5, 20.0)])
    if rng.random() < 0.6:
        return [base] * dimension
    return [base * rng.choice([1.0, 1.5, rng.uniform(0.6, 2.0)]) for _ in range(dimension)]


def part_a(J, rec, rng, configurations, molecules, samples):
    for case in range(configurations):
        if rec.full:
            return
        kind = rng.choice(["dipole", "water", "water"])
        lengths = draw_lengths(rng, shipped=(case % 7 == 0))
        code_seed = rng.randrange(2 ** 31)
        init_box(J, lengths)
        random.seed(code_seed)
        creator, parameters = creator_for(J, rng, kind, lengths, small=(case % 7 != 0 and rng.random() < 0.3))
        if case % 7 == 0 and kind == "water":       # the shipped water parameters in the shipped box
            creator, parameters = J.WaterCreator(), {"bond_length": 1.012, "bond_angle": 1.9764}
        info = {"where": "part A, generated initial molecules", "creator": kind, "lengths": lengths,
                "parameters": parameters, "code_seed": code_seed}
        rec.count("A_cases")
        try:
            roots = J.RandomInputHandler(creator, molecules).read()
        except Exception as exception:
            rec.bad("part A: the input handler / node creator raised %s: %s"
                    % (type(exception).__name__, str(exception)[:100]), **info)
            continue
        members = 2 if kind == "dipole" else 3
        straddling = 0
        for index, root_node in enumerate(roots):
            rec.count("A_molecules")
            rec.evaluations += 1
            if len(root_node.children) != members or any(c.children for c in root_node.children):
                rec.bad("part A: molecule does not consist of %d point masses" % members, molecule=index, **info)
                continue
            rec.evaluations += 1
            if root_node.weight != 1 or any(c.weight != 1.0 / members for c in root_node.children):
                rec.bad("part A: node weights are not 1 / number of point masses", molecule=index,
                        weights=[c.weight for c in root_node.children], **info)
            root = (list(root_node.value.position), None, None)
            leaves = [(list(c.value.position), None, None) for c in root_node.children]
            check_unit(rec, info, (index,), root, None, lengths, False)
            for i, leaf in enumerate(leaves):
                check_unit(rec, info, (index, i), leaf, None, lengths, False)
            check_object(rec, dict(info, molecule=index), index, root, leaves, None, lengths, False)
            reference = leaves[0][0]
            if any(abs(leaf[0][d] - reference[d]) > 0.5 * lengths[d] for leaf in leaves for d in range(len(lengths))):
                straddling += 1
        rec.count("A_straddling_molecules", straddling)
        if len(samples) < 1:
            samples.append({"part": "A", "creator": kind, "lengths": lengths, "parameters": parameters,
                            "molecules": molecules, "straddling_a_boundary": straddling})


# ------------------------------------------------------------------------------------------------------ part (B)
def hand_built_roots(J, rng, lengths, objects, members):
    dimension = len(lengths)
    roots = []
    for k in range(objects):
        centre = []
        for d in range(dimension):
            if rng.random() < 0.5:      # close to a face of the box, so that the object straddles the boundary
                centre.append(fold(rng.uniform(-0.06, 0.06) * lengths[d], lengths[d]))
            else:
                centre.append(rng.uniform(0.0, 1.0) * lengths[d])
        offsets = [[rng.uniform(-0.08, 0.08) * lengths[d] for d in range(dimension)] for _ in range(members)]
        mean = [math.fsum(offset[d] for offset in offsets) / members for d in range(dimension)]
        root_node = J.Node(J.Particle([fold(centre[d] + mean[d], lengths[d]) for d in range(dimension)]))
        for i, offset in enumerate(offsets):
            root_node.add_child(J.Node(J.Particle([fold(centre[d] + offset[d], lengths[d]) for d in range(dimension)],
                                                  {"charge": 1.0 if (i + k) % 2 == 0 else -1.0})))
        roots.append(root_node)
    return roots


def time_gap(later, earlier):
    return (later[0] - earlier[0]) + (later[1] - earlier[1])


def axis_parallel_positive(velocity):
    nonzero = [c for c in velocity if c != 0.0]
    return len(nonzero) == 1 and nonzero[0] > 0.0


def real_potential(J, rng, world, active_leaf, target_leaf, velocity):
    """A real invertible potential for the pair (and the charge argument of the handler), or None."""
    lengths = world.lengths
    separation = [min_image(world.state[target_leaf][0][d] - world.state[active_leaf][0][d], lengths[d])
                  for d in range(len(lengths))]
    distance = norm(separation)
    if not distance > 1e-6 * min(lengths):
        return None
    kinds = ["hard"]
    if axis_parallel_positive(velocity):
        kinds += ["bond", "bond", "inverse", "inverse"]
    kind = rng.choice(kinds)
    if kind == "bond":
        equilibrium = distance * rng.uniform(0.5, 1.5)
        power = rng.choice([2, 4])
        return J.Bond(equilibrium_separation=equilibrium, power=power,
                      prefactor=10.0 ** rng.uniform(0.0, 3.0) / equilibrium ** power), None, kind
    if kind == "inverse":
        power = rng.choice([1.0, 6.0, 12.0])
        charged = all(world.charge[leaf] is not None and "charge" in world.charge[leaf]
                      for leaf in (active_leaf, target_leaf))
        return J.InversePower(power=power, prefactor=rng.choice([1.0, -1.0]) * 10.0 ** rng.uniform(-1.0, 2.0)
                              * distance ** power), ("charge" if charged and rng.random() < 0.5 else None), kind
    along = math.fsum(velocity[d] * separation[d] for d in range(len(lengths)))
    if not along > 0.0:
        return None
    speed_squared = math.fsum(c * c for c in velocity)
    diameter_squared = distance * distance - rng.uniform(0.05, 0.9) * along * along / speed_squared
    if not 0.0 < diameter_squared < distance * distance * (1.0 - 1e-9):
        return None
    return J.HardSphere(radius=math.sqrt(diameter_squared) / 2.0), None, kind


def run_history(J, rec, rng, cfg, samples):
    lengths = cfg["lengths"]
    dimension = len(lengths)
    members, objects = cfg["members"], cfg["objects"]
    random.seed(cfg["code_seed"])
    history = []
    base_info = {"config": cfg}

    def info(where):
        return dict(base_info, where=where, history=list(history))

    # ---- initial state
    init_box(J, lengths, beta=cfg["beta"])
    if cfg["source"] == "hand":
        J.setting.set_number_of_root_nodes(objects)
        J.setting.set_number_of_nodes_per_root_node(members)
        J.setting.set_number_of_node_levels(2)
        roots = hand_built_roots(J, rng, lengths, objects, members)
    else:
        creator, parameters = creator_for(J, rng, cfg["source"], lengths, small=True)
        cfg["creator_parameters"] = parameters
        roots = J.RandomInputHandler(creator, objects).read()
    world = World(J, lengths, roots)
    exact = cfg["exact"]
    check_world(rec, info("initial state"), world, None, exact)
    if any(stretch(world.leaves(k), lengths) > STRETCH_LIMIT for k in range(objects)):
        rec.count("B_histories_not_started_molecule_too_long")
        return
    speed = cfg["speed"]
    unit_time = STEP_FRACTION * min(lengths) / speed

    def commit(label, out_state, event_time):
        history.append(label)
        rec.count("B_events")
        rec.count("B_event " + label.split(" ")[0])
        if "lift" in label:
            rec.count("B_lift_by " + label.split(" ")[-1])
        event = stamp_of(event_time)
        check_out_state(rec, info("after " + label), world, out_state, event, exact)
        world.insert(out_state)
        check_world(rec, info("after " + label + " [global state]"), world, event, exact)

    def guarded(label, call):
        """Call into a handler whose preconditions hold; an escaping exception is a violation."""
        try:
            return True, call()
        except Exception as exception:
            history.append(label)
            rec.bad("handler call raised %s: %s" % (type(exception).__name__, str(exception)[:100]),
                    **info("during " + label))
            return False, None

    # ---- start of run
    start_object = rng.randrange(objects)
    start_identifier = [start_object] if cfg["start_root"] else [start_object, rng.randrange(members)]
    label = "start %s direction %d" % (start_identifier, cfg["start_direction"])

    def start():
        handler = J.Start(initial_direction_of_motion=cfg["start_direction"], speed=speed,
                          initial_active_identifier=start_identifier)
        event_time, identifiers = handler.send_event_time()
        return handler.send_out_state(world.extract(tuple(identifiers[0]))), event_time
    ok, result = guarded(label, start)
    if not ok:
        return
    commit(label, *result)

    def make_eoc():
        if cfg["eoc"] == "sequential":
            return J.SequentialEOC(chain_time=cfg["chain_units"] * unit_time, delta_phi_degree=cfg["delta_phi"])
        return J.PeriodicEOC(chain_time=cfg["chain_units"] * unit_time)
    ok, eoc = guarded("construct end-of-chain handler", make_eoc)
    if not ok:
        return

    for _ in range(cfg["events"]):
        if rec.full:
            return
        active = world.active_identifiers()
        if len(active) != 1:
            rec.bad("the lifting state does not contain exactly one independent active unit any more",
                    active=[list(a) for a in active], **info("before the next event"))
            return
        if any(stretch(world.leaves(k), lengths) > STRETCH_LIMIT for k in range(objects)):
            rec.count("B_histories_ended_molecule_stretched")
            return
        active_identifier = active[0]
        root_mode = len(active_identifier) == 1
        k = active_identifier[0]
        now = world.state[active_identifier][2]

        ok, result = guarded("end-of-chain send_event_time",
                             lambda: eoc.send_event_time([world.extract(a) for a in active]))
        if not ok:
            return
        eoc_time, new_active = result[0], [tuple(identifier) for identifier in result[1][0]]

        # ---- a competing candidate event
        choices = ["switch", "switch", "none"]
        if root_mode and objects > 1:
            choices += ["root_lift_real", "root_lift_generic"]
        if not root_mode:
            choices += ["leaf_lift_real", "leaf_lift_real", "leaf_lift_generic", "leaf_lift_generic"]
        choice = rng.choice(choices)
        displacement = rng.uniform(0.02, 1.0) * unit_time
        candidate = None      # (label, event time, function returning the out-state)
        if choice == "switch":
            aim = "leaf_unit_active" if root_mode else "root_unit_active"
            label = "switch to " + aim
            ok, handler = guarded(label, lambda: J.Switcher(chain_length=displacement, aim_mode=aim))
            if not ok:
                return
            ok, event_time = guarded(label, lambda: handler.send_event_time([world.extract(a) for a in active]))
            if not ok:
                return
            candidate = (label, event_time, lambda: handler.send_out_state([world.extract((k,))]))
        elif choice.startswith("leaf_lift") or choice.startswith("root_lift"):
            if root_mode:
                other = rng.choice([o for o in range(objects) if o != k])
                active_leaf = (k, rng.randrange(members))
            else:
                same = objects == 1 or rng.random() < 0.4
                other = k if same else rng.choice([o for o in range(objects) if o != k])
                active_leaf = active_identifier
            target_leaf = (other, rng.choice([i for i in range(members) if (other, i) != active_leaf]))
            if choice.endswith("real"):
                drawn = real_potential(J, rng, world, active_leaf, target_leaf, world.state[active_leaf][1])
                if drawn is not None:
                    potential, charge, kind = drawn
                    label = "%s %s->%s %s" % ("rootlift" if root_mode else "leaflift", list(active_leaf),
                                              list(target_leaf), kind)
                    try:
                        handler = (J.RootTwoLeaf if root_mode else J.TwoLeaf)(potential=potential, charge=charge)
                        returned = handler.send_event_time([world.extract(active_leaf), world.extract(target_leaf)])
                        if root_mode:
                            event_time, objects_to_extract = returned
                            candidate = (label, event_time, lambda: handler.send_out_state(
                                [world.extract(tuple(identifier)) for identifier in objects_to_extract]))
                        else:
                            candidate = (label, returned, lambda: handler.send_out_state())
                    except Exception:
                        rec.count("B_candidates_rejected_potential_raised")
                        candidate = None
                    if candidate is not None:
                        gap = time_gap(stamp_of(candidate[1]), now)
                        if math.isinf(gap) or math.isnan(gap) or gap > 3.0 * unit_time or gap < 0.0:
                            rec.count("B_candidates_rejected_time_infinite_or_distant")
                            candidate = None
            if candidate is None:
                label = "%s %s->%s generic" % ("rootlift" if root_mode else "leaflift", list(active_leaf),
                                               list(target_leaf))
                if root_mode:
                    handler = J.GenericRootLift(displacement)
                    ok, event_time = guarded(label, lambda: handler.send_event_time([world.extract((k,))]))
                    if not ok:
                        return
                    candidate = (label, event_time, lambda: handler.send_out_state([world.extract((k,)),
                                                                                    world.extract((other,))]))
                else:
                    handler = J.GenericLeafLift(displacement)
                    ok, event_time = guarded(label, lambda: handler.send_event_time(
                        [world.extract(active_leaf), world.extract(target_leaf)]))
                    if not ok:
                        return
                    candidate = (label, event_time, lambda: handler.send_out_state())

        if candidate is not None and time_gap(stamp_of(eoc_time), stamp_of(candidate[1])) > 1e-6 * unit_time:
            label, event_time, finish = candidate
        else:
            label = "eoc -> %s" % [list(identifier) for identifier in new_active]
            event_time = eoc_time

            def finish():
                return eoc.send_out_state([world.extract(a) for a in world.active_identifiers()],
                                          [world.extract(identifier) for identifier in new_active])
        ok, out_state = guarded(label, finish)
        if not ok:
            return
        commit(label, out_state, event_time)
    if len(samples) < 3:
        samples.append({"part": "B", "config": cfg, "history": history})


def draw_history_config(rng, level, index):
    members = rng.choice([2, 3, 3] if level == 1 else [2, 3, 3, 3, 4, 5])
    source = "hand"
    if members == 2 and rng.random() < 0.4:
        source = "dipole"
    if members == 3 and rng.random() < 0.4:
        source = "water"
    lengths = draw_lengths(rng)
    dimension = len(lengths)
    eoc = "sequential" if dimension == 2 and rng.random() < 0.5 else "periodic"
    speed = rng.choice([1.0, 1.0, 0.5, 2.0, 0.7, 1.3, rng.uniform(0.5, 4.0)])
    return {"index": index, "members": members, "objects": rng.choice([1, 2, 2, 3]), "source": source,
            "lengths": lengths, "eoc": eoc, "delta_phi": rng.choice([90.0, 45.0, 1.0, rng.uniform(1.0, 179.0),
                                                                     rng.uniform(181.0, 359.0)]),
            "speed": speed, "beta": rng.choice([1.0, 0.3, 5.0]), "start_root": rng.random() < 0.5,
            "start_direction": rng.randrange(dimension), "chain_units": rng.uniform(0.5, 3.0),
            "events": rng.randint(4, 14) if level == 1 else rng.randint(6, 40),
            "code_seed": rng.randrange(2 ** 31),
            # every operation of the handlers is exact: two members (weights 1/2), one speed, axis-parallel velocities
            "exact": members == 2 and eoc == "periodic"}


def run(level, seed):
    J = load()
    rng = random.Random(seed * 1000003 + level)
    rec = Recorder()
    samples = []
    configurations, molecules = (150, 40) if level == 1 else (1500, 120)
    histories = 4000 if level == 1 else 30000
    part_a(J, rec, rng, configurations, molecules, samples)
    done = 0
    for index in range(histories):
        if rec.full:
            break
        cfg = draw_history_config(rng, level, index)
        try:
            run_history(J, rec, rng, cfg, samples)
        except Exception as exception:      # the harness itself or an unguarded set-up call failed
            rec.bad("history aborted by %s: %s" % (type(exception).__name__, str(exception)[:120]), config=cfg)
        done += 1
    J.setting.reset()
    return {"evaluations": rec.evaluations, "cases": rec.stats.get("A_cases", 0) + done,
            "violations": rec.violations, "samples": samples, "stats": rec.stats,
            "rule": "Part A: %d random creator configurations (dipole / water, 2-D and 3-D cubic and cuboid boxes, drawn "
                    "molecule parameters, seeded global generator) of %d molecules each, every molecule checked. "
                    "Part B: %d random event histories (one case each) on worlds of 1-3 objects of 2-%d point masses, "
                    "drawn by random.Random(seed): start mode, switches, liftings, end-of-chain events; every clause "
                    "c1-c7 evaluated on every returned branch and on the whole state after every event counts as one "
                    "evaluation." % (configurations, molecules, done, 3 if level == 1 else 5)}


if __name__ == "__main__":
    print("BOUNDED-RESULT " + json.dumps(run(int(sys.argv[1]), int(sys.argv[2])), default=str))
