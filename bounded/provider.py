"""Unit providers for bounded API-level stand-ins (labelled bounded, never counted as proved)."""
import json
import os
import subprocess
import sys
import time

from pyvc.runner import UnitResult
from pyvc import loader

ROOT = os.path.dirname(os.path.dirname(os.path.abspath(__file__)))


def _run(module, args, timeout=3000):
    env = dict(os.environ, PYTHONPATH="%s:%s" % (loader.REPO, ROOT), VERIF_REPO=loader.REPO)
    try:
        p = subprocess.run([sys.executable, "-m", module] + [str(a) for a in args], capture_output=True, text=True, env=env,
                           cwd=ROOT, timeout=timeout)
    except subprocess.TimeoutExpired:
        return None, "harness %s exceeded %d s" % (module, timeout)
    for line in p.stdout.splitlines():
        if line.startswith("BOUNDED-RESULT "):
            return json.loads(line[len("BOUNDED-RESULT "):]), None
    return None, (p.stderr or p.stdout)[-800:]


def state_handler(prop, tier, seed, timeout_ms, only=None, **_):
    if only and "bounded" not in only:
        return []
    depth = 4 if tier == "quick" else 5   # quick: ~2e5 sequences, about 1.5 min
    t0 = time.time()
    u = UnitResult("bounded:state-handler-api", kind="bounded")
    u.props = [prop]
    u.model_name = "native"
    # quick: depth 4, exhaustive.  thorough: depth 4 exhaustive AND depth 5 in enumeration order under a wall-clock budget
    # (23^5 sequences on the largest shape do not fit into a check): shapes whose depth-5 enumeration was cut are named
    res, err = _run("bounded.state_handler_api", [4])
    if res is not None and tier != "quick" and not res["violations"]:
        res5, err5 = _run("bounded.state_handler_api", [5, 1200], timeout=2400)
        if res5 is None:
            res, err = None, err5
        else:
            res = {"evaluations": res["evaluations"] + res5["evaluations"], "sequences": res["sequences"] + res5["sequences"],
                   "violations": res5["violations"], "samples": res["samples"], "shapes": res["shapes"],
                   "truncated_shapes": res5.get("truncated_shapes", [])}
    u.seconds = time.time() - t0
    if res is None:
        u.status, u.detail = "crash", "bounded harness failed: %s" % err
        return [u]
    u.evaluations = res["evaluations"]
    u.distinct = res["sequences"]
    u.rule = ("EXHAUSTIVE over the stated finite space: every sequence of 4 operations (extract+mutate / insert / extract_active / "
              "extract_global) on every tree shape in %s%s; distinct = sequences" % (
                  res["shapes"], "" if tier == "quick" else "; plus sequences of 5 operations in enumeration order within a "
                  "20 min budget (cut short for the shapes %s)" % res.get("truncated_shapes", [])))
    u.samples = res["samples"]
    u.detail = "BOUNDED (exhaustive at length 4%s): %d operation sequences over %d tree shapes" % (
        "" if tier == "quick" else ", length 5 within a time budget", res["sequences"], len(res["shapes"]))
    u.monitor_violations = [{"message": v["what"], "property": prop, "detail": v} for v in res["violations"]]
    u.status = "failed" if res["violations"] else "held"
    return [u]


def cells(prop, tier, seed, timeout_ms, only=None, **_):
    if only and "bounded" not in only:
        return []
    level = 2 if tier == "quick" else 3
    t0 = time.time()
    u = UnitResult("bounded:cells-api", kind="bounded")
    u.props = [prop]
    u.model_name = "native"
    res, err = _run("bounded.cells_api", [level])
    u.seconds = time.time() - t0
    if res is None:
        u.status, u.detail = "crash", "bounded harness failed: %s" % err
        return [u]
    u.evaluations = res["evaluations"]
    u.distinct = res["grids"]
    u.rule = ("EXHAUSTIVE over the stated finite space: every grid (dimension 1..3, the box lengths and cells per side listed in "
              "bounded/cells_api.py, neighbour layers 0..2, periodic and non-periodic); distinct = grids")
    u.samples = res["samples"]
    u.detail = "BOUNDED (exhaustive within the bound): %d grids, %d clause evaluations" % (res["grids"], res["evaluations"])
    u.monitor_violations = [{"message": v["what"], "property": prop, "detail": v} for v in res["violations"]]
    u.status = "failed" if res["violations"] else "held"
    return [u]


def domination(prop, tier, seed, timeout_ms, only=None, **_):
    if only and "bounded" not in only:
        return []
    n = 24 if tier == "quick" else 48
    t0 = time.time()
    u = UnitResult("bounded:domination-grid", kind="bounded")
    u.props = [prop]
    u.model_name = "native"
    res, err = _run("bounded.domination", [n, seed])
    u.seconds = time.time() - t0
    if res is None:
        u.status, u.detail = "crash", "bounded harness failed: %s" % err
        return [u]
    u.evaluations = res["evaluations"]
    u.distinct = res["evaluations"]
    u.rule = ("grid %d^3 in the minimum-image cube x 2 charge signs x 3 directions x 3 box lengths + seeded local refinement "
              "around ratios > 0.97; every point distinct" % n)
    u.samples = res["samples"] + [{"measured_max_ratio_true_over_bound": res["max_ratio"]}]
    u.detail = "BOUNDED: %d points, measured max(true/bound) = %.6f" % (res["evaluations"], res["max_ratio"])
    u.monitor_violations = [{"message": v["what"], "property": prop, "detail": v} for v in res["violations"]]
    u.status = "failed" if res["violations"] else "held"
    return [u]


def dump_resume(prop, tier, seed, timeout_ms, only=None, **_):
    if only and "bounded" not in only:
        return []
    level = 1 if tier == "quick" else 4
    t0 = time.time()
    u = UnitResult("bounded:dump-resume", kind="bounded")
    u.props = [prop]
    u.model_name = "native"
    res, err = _run("bounded.dump_resume", [level, seed])
    u.seconds = time.time() - t0
    if res is None:
        u.status, u.detail = "crash", "bounded harness failed: %s" % err
        return [u]
    u.evaluations = res["evaluations"]
    u.distinct = res["scheduler_clones"] + sum(s.get("dumps_resumed", 0) for s in res["samples"])
    u.rule = ("(a) %d scheduler clones (dill) along seeded push/trash/get histories of both schedulers, each drained against its "
              "original; (b) every resumed dump (read back from the file the real DumpingOutputHandler.write produced) of 4 runs - the "
              "shipped dumping configuration, the same with non-default Ewald parameters, 2 configurations with a harness-added "
              "dumping tagger - compared commit by commit (hash of the full global state) with the uninterrupted run; (c) the run "
              "with dumping vs the same seeded run without dumping (sequence of distinct global states); distinct = clones + resumed dumps"
              % res["scheduler_clones"])
    u.samples = res["samples"]
    u.detail = "BOUNDED: %d scheduler clones, %d resumed commits compared bit for bit (seed %d)" % (
        res["scheduler_clones"], res["resumed_commits"], seed)
    u.monitor_violations = [{"message": v["what"], "property": prop, "detail": v} for v in res["violations"]]
    u.status = "failed" if res["violations"] else "held"
    return [u]


def _generic(module, title):
    """Provider for the harnesses that follow the common protocol (level, seed -> BOUNDED-RESULT json with
    evaluations / cases / violations / samples / rule)."""
    def provider(prop, tier, seed, timeout_ms, only=None, **_):
        if only and "bounded" not in only:
            return []
        level = 1 if tier == "quick" else 2
        t0 = time.time()
        u = UnitResult("bounded:" + title, kind="bounded")
        u.props = [prop]
        u.model_name = "native"
        try:
            res, err = _run("bounded." + module, [level, seed], timeout=600 if level == 1 else 3000)
        except subprocess.TimeoutExpired:
            res, err = None, "timeout"
        u.seconds = time.time() - t0
        if res is None:
            u.status, u.detail = "crash", "bounded harness failed: %s" % err
            return [u]
        u.evaluations = res.get("evaluations", 0)
        u.distinct = res.get("cases", 0)
        u.rule = res.get("rule", "") + " (level %d, seed %d); distinct = generated cases" % (level, seed)
        u.samples = res.get("samples", [])[:3]
        u.detail = "BOUNDED: %d cases, %d clause evaluations" % (u.distinct, u.evaluations)
        u.monitor_violations = [{"message": v.get("what", "violation"), "property": prop, "detail": v} for v in res.get("violations", [])]
        u.status = "failed" if res.get("violations") else ("held" if u.evaluations > 0 else "crash")
        if u.status == "crash":
            u.detail += " | the harness evaluated nothing"
        return [u]
    return provider


occupancy = _generic("occupancy_api", "occupancy-api")
thinning = _generic("thinning_api", "thinning-api")
factor_files = _generic("factor_files_api", "factor-files-api")
composite = _generic("composite_api", "composite-api")
