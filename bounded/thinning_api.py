"""C04 (acceptance clauses) - BOUNDED harness: the REAL thinning event handlers driven with REAL potentials on hand-built
in-states (branches of Node/Unit as the TreeStateHandler delivers them), random.expovariate / random.uniform /
random.choice patched so that every draw of the code under test is chosen here.

Handler families (all of them propose an event from a bounding rate and confirm it with a uniform draw):
  leaf_ipb    TwoLeafUnitBoundingPotentialEventHandler            (scaled nearest-image 1/r bound)
  comp_ipb    TwoCompositeObjectSummedBoundingPotentialEventHandler (sum over the target point masses)
  leaf_cell   TwoLeafUnitCellBoundingPotentialEventHandler        (CellBoundingPotential, real estimator)
  comp_cell   TwoCompositeObjectCellBoundingPotentialEventHandler (CellBoundingPotential, real dipole estimator)
  leaf_veto   LeafUnitCellVetoEventHandler                        (Walker table over the cell offsets)
  comp_veto   CompositeObjectCellVetoEventHandler

For each generated state (box length, direction, speed, time stamp, charges - equal, opposite, different magnitudes,
charge dictionaries with several entries -, single point masses / dipoles / water-like triples, seeded geometry):
send_event_time with chosen exponential draws, then send_out_state on fresh copies of the state with the confirmation
draw u placed at 0, just below q, just above q, at random places of (0, B) and at B.  Checked per call:
  (a) the confirmation draw is uniform(0, B) with B the rate the event was PROPOSED from:
        leaf_ipb / comp_ipb: sum over the target point masses of max(0, bounding derivative of that pair) at the event
                             configuration (own positions, own nearest-image arithmetic, the pair's own charges); in
                             addition the candidate time must be the minimum of the pair displacements for the given
                             exponential draws (the proposal really is the superposition of these pair processes);
        leaf_cell / comp_cell: constant-rate proposal: B = 1 / (time displacement proposed for the exponential draw
                             1.0 on a copy of the state); the actual draw E must then be proposed at E / B;
        leaf_veto / comp_veto: speed * |charge factor| * (estimator bound of the sampled cell offset, recomputed here
                             from the cell corners with an own estimator instance), and the sum of these rates over all
                             offsets must be the rate the time displacement is drawn from (measured as above);
  (b) a velocity is handed over if and only if u < q, q = max(0, sum over the pairs (active point mass, target point
      mass) of the TRUE potential's derivative with the charges of that pair), evaluated at positions advanced here;
  (c) not confirmed: every position, velocity and time stamp of the out-state equals the in-state advanced to the
      candidate time (own time slicing), the active unit stays active;
  (d) confirmed: exactly one leaf unit is active, it is another one than before, it carries the old velocity and the
      candidate time as time stamp, the old one has none; the root units carry weight * velocity of their active leaf.
Tolerances (floating point only): u is kept away from q by delta = 1e-9 * sum over the pairs of max(|pair derivative|,
nearest-image Coulomb term of the pair) (draws closer than that to q are not generated; lattice sums cancel, so the
rounding error of q is not relative to q), B is compared with relative tolerance 1e-9 (1e-7 where it is obtained as
a quotient of an exponential draw and a time difference), positions with 1e-11 * L, candidate times with 1e-9
relative or, for badly conditioned inversions (tiny exponential draw), a potential error of 1e-11 * pair potential.  States in
which a nearest-image separation component lies within 1e-9 L of +-L/2 (the bound is discontinuous there) or in which
the bound does not propose an event at all are counted but not evaluated.

A defect this harness found on the pinned tree (cell-veto handlers compared a per-length bound with a per-time rate
when speed != 1, see OBSERVATION_SPEED) has been repaired in /repo; it is reported as a violation of clause (a)."""
import itertools
import json
import logging
import math
import os
import random
import sys
import time as _time
from unittest import mock

REPO = os.environ.get("VERIF_REPO", "/repo")

OBSERVATION_SPEED = ("cell-veto handler: the confirmation draw is uniform(0, bound per unit LENGTH) while the event was "
                     "proposed at (bound per unit length) * speed and the true rate it is compared with contains the "
                     "speed; identical only for speed 1")

REL_B = 1.0e-9
REL_B_QUOTIENT = 1.0e-7
REL_Q = 1.0e-9
POS_TOL = 1.0e-11
HALF_BOX_GUARD = 1.0e-9


# --------------------------------------------------------------------------------------------------------------------
# own geometry
# --------------------------------------------------------------------------------------------------------------------
def wrap(x, length):
    y = x - length * math.floor(x / length)
    if y >= length:
        y -= length
    if y < 0.0:
        y += length
    return y


def nearest_image(target, reference, length):
    """target - reference, every component in [-L/2, L/2)."""
    out = []
    for t, r in zip(target, reference):
        d = t - r
        d -= length * round(d / length)
        if d >= 0.5 * length:
            d -= length
        if d < -0.5 * length:
            d += length
        out.append(d)
    return out


def circular_distance(a, b, length):
    d = abs(a - b) % length
    return min(d, length - d)


# --------------------------------------------------------------------------------------------------------------------
# controlled random draws
# --------------------------------------------------------------------------------------------------------------------
class Draws(object):
    """Replacement of random.expovariate / random.uniform / random.choice while the code under test runs."""

    def __init__(self, exponentials, fractions):
        self.exponentials = list(exponentials)
        self.used_exponentials = []
        self.fractions = list(fractions)     # for every draw that is not the confirmation draw: a + (b - a) * fraction
        self.fraction_index = 0
        self.phase = "time"
        self.confirmation_value = None
        self.confirmation_call = None        # (a, b) of the confirmation draw
        self.other_uniform_calls = 0

    def _fraction(self):
        f = self.fractions[self.fraction_index % len(self.fractions)]
        self.fraction_index += 1
        return f

    def expovariate(self, lambd):
        value = self.exponentials[len(self.used_exponentials) % len(self.exponentials)]
        self.used_exponentials.append(value)
        return value / lambd

    def uniform(self, a, b):
        if self.phase == "out" and self.confirmation_call is None:
            self.confirmation_call = (a, b)
            return self.confirmation_value
        self.other_uniform_calls += 1
        return a + (b - a) * self._fraction()

    def choice(self, sequence):
        return sequence[min(len(sequence) - 1, int(self._fraction() * len(sequence)))]

    def patches(self):
        return (mock.patch("random.expovariate", side_effect=self.expovariate),
                mock.patch("random.uniform", side_effect=self.uniform),
                mock.patch("random.choice", side_effect=self.choice))


# --------------------------------------------------------------------------------------------------------------------
# the harness
# --------------------------------------------------------------------------------------------------------------------
class Harness(object):
    def __init__(self, level, seed):
        self.level = level
        self.seed = seed
        self.rng = random.Random(seed)
        self.evaluations = 0
        self.cases = 0
        self.calls = 0
        self.skipped = {"half_box": 0, "not_proposed": 0, "left_cell": 0, "bound_below_true_rate": 0}
        self.violations = []
        self.observations = []
        self.observation_count = 0
        self.samples = []
        self.per_family = {}
        self.confirmed_calls = 0

    # ---------------------------------------------------------------------------------------------------------------
    def bad(self, what, **details):
        if len(self.violations) < 8:
            record = {"what": what}
            record.update(details)
            self.violations.append(record)

    def observe(self, what, **details):
        self.observation_count += 1
        if len(self.observations) < 3:
            record = {"what": what}
            record.update(details)
            self.observations.append(record)

    # ---------------------------------------------------------------------------------------------------------------
    def imports(self):
        sys.path.insert(0, REPO)
        from monitors.harness import build_c_extensions, preload_extensions
        preload_extensions(build_c_extensions(REPO))
        logging.getLogger("jellyfysh").setLevel(logging.CRITICAL)
        import jellyfysh.setting as setting
        from jellyfysh.setting import hypercubic_setting
        from jellyfysh.base.node import Node
        from jellyfysh.base.time import Time
        from jellyfysh.base.unit import Unit
        self.setting = setting
        self.hypercubic_setting = hypercubic_setting
        self.Node, self.Time, self.Unit = Node, Time, Unit

    def setup(self, length, nodes_per_root, beta):
        setting = self.setting
        setting.reset()
        self.hypercubic_setting.HypercubicSetting(beta=beta, dimension=3, system_length=length)
        setting.set_number_of_root_nodes(2)
        setting.set_number_of_nodes_per_root_node(nodes_per_root)
        setting.set_number_of_node_levels(1 if nodes_per_root == 1 else 2)
        self.length = length

    # ---------------------------------------------------------------------------------------------------------------
    # state construction (spec -> branches)
    # ---------------------------------------------------------------------------------------------------------------
    def build_branch(self, spec, obj, only_leaf=None):
        """Branch of one (composite) object.  obj = {"id", "leaves": [{"pos", "charge"}], "centre"};  only_leaf: the
        branch contains only this child (what extract_from_global_state returns for a leaf identifier)."""
        Node, Unit, Time = self.Node, self.Unit, self.Time
        active_obj, active_leaf = spec["active"]
        n = len(obj["leaves"])
        is_active_obj = obj["id"] == active_obj
        if n == 1:
            leaf = obj["leaves"][0]
            return Node(Unit(identifier=(obj["id"],), position=list(leaf["pos"]), charge=dict(leaf["charge"]),
                             velocity=list(spec["velocity"]) if is_active_obj else None,
                             time_stamp=Time.from_float(spec["t0"]) if is_active_obj else None), weight=1)
        root = Node(Unit(identifier=(obj["id"],), position=list(obj["centre"]), charge=None,
                         velocity=[c / n for c in spec["velocity"]] if is_active_obj else None,
                         time_stamp=Time.from_float(spec["t0"]) if is_active_obj else None), weight=1)
        for j, leaf in enumerate(obj["leaves"]):
            if only_leaf is not None and j != only_leaf:
                continue
            is_active = is_active_obj and j == active_leaf
            root.add_child(Node(Unit(identifier=(obj["id"], j), position=list(leaf["pos"]), charge=dict(leaf["charge"]),
                                     velocity=list(spec["velocity"]) if is_active else None,
                                     time_stamp=Time.from_float(spec["t0"]) if is_active else None), weight=1.0 / n))
        return root

    @staticmethod
    def walk(state):
        stack = list(state)
        while stack:
            node = stack.pop()
            yield node
            stack.extend(node.children)

    def snapshot(self, state):
        snap = {}
        for node in self.walk(state):
            unit = node.value
            snap[tuple(unit.identifier)] = {
                "pos": list(unit.position),
                "vel": None if unit.velocity is None else list(unit.velocity),
                "ts": unit.time_stamp,
                "leaf": not node.children,
                "weight": node.weight,
                "parent": None if node.parent is None else tuple(node.parent.value.identifier)}
        return snap

    # ---------------------------------------------------------------------------------------------------------------
    # geometry / charge generators
    # ---------------------------------------------------------------------------------------------------------------
    def charge_dict(self, value):
        rng = self.rng
        kind = rng.randrange(3)
        if kind == 0:
            return {"charge": value}
        if kind == 1:
            return {"other": -value if value else 1.0, "charge": value}
        return {"mass": 1.0 + rng.random(), "charge": value, "other": rng.choice((-2.0, 0.5, 3.0))}

    def charges(self, n, neutral_target):
        """Charges (active object, target object)."""
        rng = self.rng
        magnitude = rng.choice((1.0, 1.0, 0.41, 2.0, 0.5, round(0.2 + 1.5 * rng.random(), 3)))
        if n == 1:
            kind = rng.randrange(5)
            if kind == 0:
                return [magnitude], [magnitude]
            if kind == 1:
                return [magnitude], [-magnitude]
            if kind == 2:
                return [-magnitude], [magnitude]
            if kind == 3:
                return [-magnitude], [-magnitude]
            other = rng.choice((0.3, 0.82, 1.7, 2.0))
            return [magnitude * rng.choice((1, -1))], [other * rng.choice((1, -1))]

        def neutral(m):
            if n % 2 == 0:
                c = [m, -m] * (n // 2)
            else:
                c = [m] * (n - 1) + [-(n - 1.0) * m]    # water-like: equal charges and their exact negative sum
            if rng.random() < 0.5:
                c = [-x for x in c]
            rng.shuffle(c)
            return c

        def free(m):
            kind = rng.randrange(4)
            if kind == 0:
                return neutral(m)
            if kind == 1:
                return [m * rng.choice((1, -1))] * n                                  # all equal
            if kind == 2:
                return [m * rng.choice((1, -1)) * rng.choice((1.0, 0.5, 2.0)) for _ in range(n)]
            return [round(rng.uniform(-2.0, 2.0), 3) or 1.0 for _ in range(n)]
        other = magnitude if rng.random() < 0.5 else rng.choice((0.41, 0.82, 1.0, 1.3, 2.0))
        active = free(magnitude)
        target = neutral(other) if neutral_target else free(other)
        return active, target

    def molecule(self, centre, n, size):
        """n point masses around centre (not wrapped yet), none closer than size / 4 to another."""
        rng = self.rng
        while True:
            pts = [[c + rng.uniform(-size, size) for c in centre] for _ in range(n)]
            if all(math.dist(p, q) > size / 4.0 for p, q in itertools.combinations(pts, 2)):
                break
        mean = [sum(p[d] for p in pts) / n for d in range(3)]
        pts = [[p[d] - mean[d] + centre[d] for d in range(3)] for p in pts]    # centre = barycentre
        return pts

    def make_spec(self, n, neutral_target, placement, branch):
        """placement(rng) -> (centre of the active object, centre of the target object, molecule size)."""
        rng, length = self.rng, self.length
        direction = rng.randrange(3)
        speed = rng.choice((1.0, 1.0, 2.0, 0.5, round(0.3 + 2.0 * rng.random(), 3)))
        velocity = [0.0, 0.0, 0.0]
        velocity[direction] = speed
        t0 = rng.choice((0.0, 0.3, round(rng.uniform(0.0, 50.0), 4), round(rng.uniform(1.0e3, 1.0e6), 2)))
        centre_a, centre_t, size = placement()
        active_charges, target_charges = self.charges(n, neutral_target)
        active_id = rng.randrange(2)
        objects = []
        for object_id in (0, 1):
            is_active = object_id == active_id
            centre = centre_a if is_active else centre_t
            pts = self.molecule(centre, n, size) if n > 1 else [list(centre)]
            cs = active_charges if is_active else target_charges
            objects.append({"id": object_id, "centre": [wrap(c, length) for c in centre],
                            "leaves": [{"pos": [wrap(c, length) for c in p], "charge": self.charge_dict(cs[j])}
                                       for j, p in enumerate(pts)]})
        spec = {"L": length, "n": n, "direction": direction, "speed": speed, "velocity": velocity, "t0": t0,
                "objects": objects, "active": (active_id, rng.randrange(n)), "branch": branch}
        if branch == "leaf":
            spec["target_leaf"] = rng.randrange(n)
        return spec

    def in_state(self, spec, which=("active", "target")):
        active_id = spec["active"][0]
        state = []
        for obj in spec["objects"]:
            is_active = obj["id"] == active_id
            if ("active" if is_active else "target") not in which:
                continue
            only = None
            if spec["branch"] == "leaf" and spec["n"] > 1:
                only = spec["active"][1] if is_active else spec["target_leaf"]
            state.append(self.build_branch(spec, obj, only))
        if spec.get("reverse_order"):
            state.reverse()
        return state

    def describe(self, spec):
        return {"L": spec["L"], "velocity": spec["velocity"], "t0": spec["t0"], "active": list(spec["active"]),
                "branch": spec["branch"],
                "objects": [{"id": o["id"], "centre": o["centre"],
                             "leaves": [{"pos": l["pos"], "charge": l["charge"]} for l in o["leaves"]]}
                            for o in spec["objects"]]}

    # ---------------------------------------------------------------------------------------------------------------
    # the independent expectation
    # ---------------------------------------------------------------------------------------------------------------
    def pairs(self, spec):
        """(active leaf, list of target leaves) of the factor, as (position, charge value) records of the spec."""
        active_id, active_leaf = spec["active"]
        target_obj = spec["objects"][1 - active_id]
        a = spec["objects"][active_id]["leaves"][active_leaf]
        if spec["branch"] == "leaf" and spec["n"] > 1:
            targets = [target_obj["leaves"][spec["target_leaf"]]]
        else:
            targets = target_obj["leaves"]
        return a, targets

    def rates(self, spec, dt, true_potential, bounding_potential, use_charge):
        """q, per-pair true derivatives, per-pair bounding derivatives at the configuration advanced by dt (own
        arithmetic).  Returns None if a separation component is too close to +-L/2."""
        length = spec["L"]
        a, targets = self.pairs(spec)
        position = [wrap(a["pos"][d] + spec["velocity"][d] * dt, length) for d in range(3)]
        true_pairs, bounding_pairs, separations, scale = [], [], [], 0.0
        for t in targets:
            s = nearest_image(t["pos"], position, length)
            if any(abs(abs(c) - 0.5 * length) < HALF_BOX_GUARD * length for c in s):
                return None
            cs = (a["charge"]["charge"], t["charge"]["charge"]) if use_charge else (1.0, 1.0)
            separations.append(s)
            true_pairs.append(true_potential.derivative(list(spec["velocity"]), list(s), *cs))
            # magnitude of the terms the derivative is summed from (lattice sums cancel: the rounding error of a pair
            # derivative is relative to the nearest-image Coulomb term, not to the possibly tiny result)
            scale += max(abs(true_pairs[-1]),
                         abs(cs[0] * cs[1]) * spec["speed"] * (1.0 / sum(c * c for c in s) + 1.0 / length ** 2))
            if bounding_potential is not None:
                bounding_pairs.append(bounding_potential.derivative(list(spec["velocity"]), list(s), *cs))
        return {"q": max(0.0, sum(true_pairs)), "true_pairs": true_pairs, "bounding_pairs": bounding_pairs,
                "separations": separations, "scale": scale}

    def expected_sliced(self, spec, snap0, dt, event_time):
        expected = {}
        for identifier, rec in snap0.items():
            new = dict(rec)
            if rec["vel"] is not None:
                new["pos"] = [wrap(rec["pos"][d] + rec["vel"][d] * dt, spec["L"]) for d in range(3)]
                new["ts"] = event_time
            expected[identifier] = new
        return expected

    def compare(self, got, expected, length, what, ctx):
        """All positions, velocities and time stamps of two snapshots."""
        self.evaluations += 1
        if set(got) != set(expected):
            self.bad(what + ": the out-state does not contain the units of the in-state", got=sorted(got),
                     expected=sorted(expected), **ctx)
            return False
        for identifier, e in expected.items():
            g = got[identifier]
            if any(circular_distance(g["pos"][d], e["pos"][d], length) > POS_TOL * length for d in range(3)):
                self.bad(what + ": position differs from the in-state advanced to the candidate time",
                         unit=list(identifier), got=g["pos"], expected=e["pos"], **ctx)
                return False
            if (g["vel"] is None) != (e["vel"] is None) or (
                    g["vel"] is not None and any(abs(x - y) > 1e-12 * (1.0 + abs(y)) for x, y in zip(g["vel"], e["vel"]))):
                self.bad(what + ": velocity differs", unit=list(identifier), got=g["vel"], expected=e["vel"], **ctx)
                return False
            if (g["ts"] is None) != (e["ts"] is None) or (g["ts"] is not None and not g["ts"] == e["ts"]):
                self.bad(what + ": time stamp differs", unit=list(identifier), got=str(g["ts"]), expected=str(e["ts"]),
                         **ctx)
                return False
        return True

    def expected_confirmed(self, sliced, new_active, old_active, velocity, event_time):
        """Expected snapshot after a confirmed event with new_active as the (observed) receiving leaf."""
        expected = {k: dict(v) for k, v in sliced.items()}
        expected[old_active]["vel"] = None
        expected[old_active]["ts"] = None
        expected[new_active]["vel"] = list(velocity)
        expected[new_active]["ts"] = event_time
        for identifier, rec in expected.items():
            if rec["leaf"]:
                continue
            total = [0.0, 0.0, 0.0]
            for child_id, child in expected.items():
                if child["parent"] == identifier and child["vel"] is not None:
                    for d in range(3):
                        total[d] += child["weight"] * child["vel"][d]
            if any(abs(c) > 1e-13 for c in total):
                rec["vel"] = total
                rec["ts"] = event_time
            else:
                rec["vel"] = None
                rec["ts"] = None
        return expected

    # ---------------------------------------------------------------------------------------------------------------
    # one state: several confirmation draws
    # ---------------------------------------------------------------------------------------------------------------
    def confirmation_values(self, q, scale, bound):
        """Values of the confirmation draw in [0, bound], none of them within delta of q."""
        rng = self.rng
        delta = REL_Q * scale + 1e-300
        values = [0.0, bound]
        if q > 0.0:
            values += [q - delta * (1.0 + rng.random()), q + delta * (1.0 + rng.random()), 0.5 * q,
                       q + (bound - q) * rng.random() if bound > q else 0.9 * q]
        else:
            values += [5e-324, 1e-12 * bound, 0.5 * bound]
        for _ in range(2 if self.level > 1 else 1):
            values.append(bound * rng.random())
        out = []
        for v in values:
            if 0.0 <= v <= bound and abs(v - q) > delta and v not in out:
                out.append(v)
        return out, delta

    def run_state(self, family, spec, handler, exponentials, proposal, true_potential, bounding_potential, use_charge,
                  veto=None, probe_rate=None):
        """proposal: "pairs" (bound = sum of clipped pair bounding derivatives), "quotient" (bound = draw / time
        displacement), "veto" (bound = speed * |charge factor| * estimator bound of the sampled offset)."""
        rng = self.rng
        length = spec["L"]
        fractions = [rng.random() for _ in range(16)]
        ctx = {"family": family, "state": self.describe(spec), "exponential_draws": list(exponentials)}
        if len(self.violations) >= 8:
            return
        self.cases += 1
        self.per_family[family] = self.per_family.get(family, 0) + 1
        t0 = self.Time.from_float(spec["t0"])
        old_active = tuple(spec["active"]) if spec["n"] > 1 else (spec["active"][0],)

        first = None
        values = [None]
        index = 0
        while index < len(values):
            u = values[index]
            index += 1
            draws = Draws(exponentials, fractions)
            draws.confirmation_value = u
            which = ("active",) if veto is not None else ("active", "target")
            state = self.in_state(spec, which)
            snap0 = self.snapshot(state)
            p1, p2, p3 = draws.patches()
            with p1, p2, p3:
                try:
                    result = handler.send_event_time(state)
                except Exception as exc:      # the handlers must accept every generated state
                    self.bad("send_event_time raised %s: %s" % (type(exc).__name__, str(exc)[:100]), **ctx)
                    return
                if veto is not None:
                    event_time, target_cells = result
                else:
                    event_time, target_cells = result, None
                dt = event_time - t0
                if first is None:
                    # ---- everything that is the same for all confirmation draws of this state
                    if math.isinf(dt) or math.isnan(dt):
                        self.skipped["not_proposed"] += 1
                        return
                    first = {"dt": dt, "event_time": event_time}
                    if veto is not None:
                        if not self.veto_prepare(spec, veto, target_cells, dt, exponentials, draws, ctx, first):
                            return
                    r = self.rates(spec, dt, true_potential, bounding_potential, use_charge)
                    if r is None:
                        self.skipped["half_box"] += 1
                        return
                    if veto is not None and not first["target_present"]:
                        # no unit in the sampled cell: nothing can be confirmed, no confirmation draw is made
                        r = dict(r, q=0.0, true_pairs=[], scale=0.0)
                    first["rates"] = r
                    if proposal == "pairs":
                        bound = sum(max(0.0, b) for b in r["bounding_pairs"])
                        bound_tol = REL_B * sum(abs(b) for b in r["bounding_pairs"])
                        if not self.check_pair_proposal(spec, bounding_potential, use_charge, exponentials, dt, ctx,
                                                        r["bounding_pairs"]):
                            return
                    elif proposal == "quotient":
                        # constant-rate proposal: the rate was measured with the probe draw 1.0 (long time
                        # displacement, so the quotient is accurate); this draw must give the same rate
                        bound = probe_rate
                        bound_tol = REL_B_QUOTIENT * bound
                        expected_dt = exponentials[0] / self.setting.beta / bound
                        self.evaluations += 1
                        if not abs(dt - expected_dt) <= REL_B_QUOTIENT * expected_dt + 1e-14:
                            self.bad("(a) the time displacement is not (exponential draw) / (constant bounding rate)",
                                     got=dt, expected=expected_dt, rate=bound, **ctx)
                            return
                    else:
                        bound = first["veto_bound"]
                        bound_tol = REL_B * bound
                    first["bound"], first["bound_tol"] = bound, bound_tol
                    if not bound > 0.0:
                        self.skipped["not_proposed"] += 1
                        return
                    if r["q"] > bound + bound_tol:
                        self.skipped["bound_below_true_rate"] += 1     # domination is checked elsewhere
                    values, first["delta"] = self.confirmation_values(r["q"], r["scale"], bound)
                    if len(self.samples) < 3 and rng.random() < 0.05:
                        self.samples.append({"family": family, "L": length, "n": spec["n"], "velocity": spec["velocity"],
                                             "q": r["q"], "B": bound, "pair_true": r["true_pairs"],
                                             "pair_bound": r["bounding_pairs"], "draws": values})
                    index = 0
                    continue
                # ---- the candidate time and the time-sliced in-state must not depend on the confirmation draw
                if not event_time == first["event_time"]:
                    self.bad("candidate event time differs between two identical calls of send_event_time", **ctx)
                    return
                sliced = self.expected_sliced(spec, snap0, first["dt"], first["event_time"])
                if not self.compare(self.snapshot(state), sliced, length, "(c) after send_event_time", ctx):
                    return
                draws.phase = "out"
                try:
                    if veto is not None:
                        target_branch = self.in_state(spec, ("target",))[0] if first["target_present"] else None
                        if target_branch is not None:
                            sliced.update(self.snapshot([target_branch]))
                        out_state = handler.send_out_state(target_branch)
                    else:
                        out_state = handler.send_out_state()
                except Exception as exc:
                    self.bad("send_out_state raised %s: %s" % (type(exc).__name__, str(exc)[:100]), u=u, **ctx)
                    return
            self.calls += 1
            if out_state is None:
                self.skipped["left_cell"] += 1
                return
            r, bound, bound_tol = first["rates"], first["bound"], first["bound_tol"]
            ctx_u = dict(ctx, u=u, q=r["q"], B=bound, pair_true=r["true_pairs"], pair_bound=r["bounding_pairs"])
            # ---- (a) the confirmation draw
            if draws.confirmation_call is not None:
                self.evaluations += 1
                a, b = draws.confirmation_call
                if a != 0.0 or not abs(b - bound) <= bound_tol:
                    if veto is not None and spec["speed"] != 1.0 and a == 0.0 and \
                            abs(b * spec["speed"] - bound) <= bound_tol:
                        # found on the pinned tree and repaired (known_findings.txt, fixed: C04): a violation again
                        self.bad("(a) " + OBSERVATION_SPEED, speed=spec["speed"], handler_bound=b, **ctx_u)
                        return
                    else:
                        self.bad("(a) the confirmation draw is uniform(%r, %r) but the event was proposed at the rate %r"
                                 % (a, b, bound), **ctx_u)
                        return
            elif r["q"] > first["delta"]:
                self.evaluations += 1
                self.bad("(a) no confirmation draw although the true rate is positive", **ctx_u)
                return
            # ---- (b) confirmed iff u < q
            got = self.snapshot(out_state)
            active_leaves = [k for k, v in got.items() if v["leaf"] and v["vel"] is not None]
            confirmed = active_leaves != [old_active]
            expected_confirmed = u < r["q"]
            self.evaluations += 1
            if confirmed != expected_confirmed:
                self.bad("(b) event %s although u %s q = max(0, true derivative)"
                         % ("CONFIRMED" if confirmed else "NOT confirmed", "<" if expected_confirmed else ">="),
                         active_leaves_after=[list(k) for k in active_leaves], **ctx_u)
                return
            if not confirmed:
                # ---- (c)
                if not self.compare(got, sliced, length, "(c) unconfirmed event", ctx_u):
                    return
            else:
                # ---- (d)
                self.confirmed_calls += 1
                self.evaluations += 1
                if len(active_leaves) != 1:
                    self.bad("(d) %d active leaf units after a confirmed event" % len(active_leaves),
                             active_leaves_after=[list(k) for k in active_leaves], **ctx_u)
                    return
                expected = self.expected_confirmed(sliced, active_leaves[0], old_active, spec["velocity"],
                                                   first["event_time"])
                if not self.compare(got, expected, length, "(d) confirmed event", ctx_u):
                    return

    # ---------------------------------------------------------------------------------------------------------------
    def check_pair_proposal(self, spec, bounding_potential, use_charge, exponentials, dt, ctx, event_rates):
        """The candidate time is the minimum over the target point masses of the pair displacement for the pair's own
        exponential draw (separations of the START configuration, own arithmetic)."""
        a, targets = self.pairs(spec)
        candidates, potential_scales = [], []
        for index, t in enumerate(targets):
            s = nearest_image(t["pos"], a["pos"], spec["L"])
            if any(abs(abs(c) - 0.5 * spec["L"]) < HALF_BOX_GUARD * spec["L"] for c in s):
                self.skipped["half_box"] += 1
                return False
            cs = (a["charge"]["charge"], t["charge"]["charge"]) if use_charge else (1.0, 1.0)
            candidates.append(bounding_potential.displacement(
                list(spec["velocity"]), list(s), *cs, exponentials[index % len(exponentials)] / self.setting.beta))
            potential_scales.append(2.0 * abs(cs[0] * cs[1]) / math.sqrt(sum(c * c for c in s)))
        expected = min(candidates)
        winner = candidates.index(expected)
        self.evaluations += 1
        # the displacement inverts the pair potential: a rounding error of the potential value (relative 1e-11 of the
        # potential itself allowed) is a time error of that amount divided by the pair rate at the event
        if not (abs(dt - expected) <= 1e-9 * (abs(expected) + 1e-3) + 1e-12 * (1.0 + spec["t0"])
                or abs(dt - expected) * abs(event_rates[winner]) <= 1e-11 * potential_scales[winner]):
            self.bad("(a) the candidate time is not the minimum of the pair displacements of the bounding potential "
                     "(the event is not proposed from the sum of the clipped pair rates)", got=dt, expected=expected,
                     pair_candidates=candidates, **ctx)
            return False
        return True

    # ---------------------------------------------------------------------------------------------------------------
    # cell systems
    # ---------------------------------------------------------------------------------------------------------------
    def digits(self, position, sides):
        out = []
        for d in range(3):
            width = self.length / sides[d]
            x = position[d] / width
            if abs(x - round(x)) < 1e-7:
                return None
            out.append(int(math.floor(x)))
        return tuple(out)

    @staticmethod
    def offset(target_digits, active_digits, sides):
        return tuple((t - a) % n for t, a, n in zip(target_digits, active_digits, sides))

    @staticmethod
    def nearby(offset, sides, layers=1):
        return all(min(o, n - o) <= layers for o, n in zip(offset, sides))

    def cell_placement(self, sides, n, cell_unit):
        """Centres of the two objects such that the cells of the cell-level units are not nearby; returns a callable.
        cell_unit: "root" (cells contain the object centres) or "leaf" (n == 1: the same)."""
        rng, length = self.rng, self.length

        def placement():
            size = rng.choice((0.02, 0.05)) * length if n > 1 else 0.0
            while True:
                a = [rng.uniform(0.0, length) for _ in range(3)]
                t = [rng.uniform(0.0, length) for _ in range(3)]
                da, dt_ = self.digits(a, sides), self.digits(t, sides)
                if da is None or dt_ is None:
                    continue
                if not self.nearby(self.offset(dt_, da, sides), sides):
                    return a, t, size
        return placement

    def free_placement(self, n):
        rng, length = self.rng, self.length

        def placement():
            size = rng.choice((0.03, 0.08, 0.15)) * length if n > 1 else 0.0
            while True:
                kind = rng.randrange(4)
                a = [rng.uniform(0.0, length) for _ in range(3)]
                if kind == 0:       # close pair
                    t = [c + rng.uniform(-0.2, 0.2) * length for c in a]
                elif kind == 1:     # across the box
                    t = [c + rng.choice((-1, 1)) * rng.uniform(0.3, 0.5) * length for c in a]
                else:
                    t = [rng.uniform(0.0, length) for _ in range(3)]
                if math.dist(nearest_image(t, a, length), (0.0, 0.0, 0.0)) > size + 0.03 * length:
                    return a, t, size
        return placement

    def distance_to_cell_wall(self, position, direction, sides):
        width = self.length / sides[direction]
        return (math.floor(position[direction] / width) + 1) * width - position[direction]

    # ---------------------------------------------------------------------------------------------------------------
    def exponential_draws(self, count):
        rng = self.rng
        scale = rng.choice((1.0e-9, 0.05, 0.5, 1.0, 4.0))
        return [scale * rng.expovariate(1.0) + 1.0e-15 for _ in range(count)]

    # ---------------------------------------------------------------------------------------------------------------
    # families
    # ---------------------------------------------------------------------------------------------------------------
    def family_inverse_power_bound(self, count, n, composite):
        from jellyfysh.event_handler.two_leaf_unit_bounding_potential_event_handler import \
            TwoLeafUnitBoundingPotentialEventHandler
        from jellyfysh.event_handler.two_composite_object_summed_bounding_potential_event_handler import \
            TwoCompositeObjectSummedBoundingPotentialEventHandler
        from jellyfysh.lifting.inside_first_lifting import InsideFirstLifting
        from jellyfysh.lifting.outside_first_lifting import OutsideFirstLifting
        from jellyfysh.lifting.ratio_lifting import RatioLifting
        from jellyfysh.potential.inverse_power_potential import InversePowerPotential
        from jellyfysh.potential.inverse_power_coulomb_bounding_potential import InversePowerCoulombBoundingPotential
        from jellyfysh.potential.merged_image_coulomb_potential import MergedImageCoulombPotential
        rng = self.rng
        variants = [("merged_image", lambda: MergedImageCoulombPotential(), True),
                    ("inverse_power_1", lambda: InversePowerPotential(power=1.0, prefactor=1.0), True)]
        if not composite:
            variants.append(("inverse_power_1_no_charge", lambda: InversePowerPotential(power=1.0, prefactor=1.0), False))
        liftings = [InsideFirstLifting, OutsideFirstLifting, RatioLifting]
        for variant_index, (name, make_true, use_charge) in enumerate(variants):
            share = count // len(variants) + (1 if variant_index < count % len(variants) else 0)
            if share == 0:
                continue
            charge = "charge" if use_charge else None
            if composite:
                handler = TwoCompositeObjectSummedBoundingPotentialEventHandler(
                    potential=make_true(), bounding_potential=InversePowerCoulombBoundingPotential(),
                    lifting=liftings[(variant_index + self.seed) % 3](), charge=charge)
                family = "comp_ipb/%s/n%d" % (name, n)
            else:
                handler = TwoLeafUnitBoundingPotentialEventHandler(
                    potential=make_true(), bounding_potential=InversePowerCoulombBoundingPotential(), charge=charge)
                family = "leaf_ipb/%s/n%d" % (name, n)
            true_oracle, bound_oracle = make_true(), InversePowerCoulombBoundingPotential()
            for _ in range(share):
                spec = self.make_spec(n, False, self.free_placement(n), "full" if composite or n == 1 else "leaf")
                spec["reverse_order"] = rng.random() < 0.5
                targets = len(self.pairs(spec)[1])
                self.run_state(family, spec, handler, self.exponential_draws(targets), "pairs", true_oracle,
                               bound_oracle, use_charge)

    def family_cell_bound(self, count, n, composite, sides):
        from jellyfysh.activator.internal_state.cell_occupancy.cells.cuboid_periodic_cells import CuboidPeriodicCells
        from jellyfysh.estimator.inner_point_estimator import InnerPointEstimator
        from jellyfysh.estimator.dipole_inner_point_estimator import DipoleInnerPointEstimator
        from jellyfysh.estimator.dipole_monte_carlo_estimator import DipoleMonteCarloEstimator
        from jellyfysh.event_handler.two_leaf_unit_cell_bounding_potential_event_handler import \
            TwoLeafUnitCellBoundingPotentialEventHandler
        from jellyfysh.event_handler.two_composite_object_cell_bounding_potential_event_handler import \
            TwoCompositeObjectCellBoundingPotentialEventHandler
        from jellyfysh.lifting.inside_first_lifting import InsideFirstLifting
        from jellyfysh.lifting.ratio_lifting import RatioLifting
        from jellyfysh.potential.cell_bounding_potential import CellBoundingPotential
        from jellyfysh.potential.inverse_power_potential import InversePowerPotential
        from jellyfysh.potential.merged_image_coulomb_potential import MergedImageCoulombPotential
        rng = self.rng
        cells = CuboidPeriodicCells(cells_per_side=list(sides), neighbor_layers=1)
        if composite:
            variants = [("merged_image/dipole_inner_point", lambda: MergedImageCoulombPotential(), True,
                         lambda p: DipoleInnerPointEstimator(potential=p, dipole_separation=0.05 * self.length,
                                                             points_per_side=2, prefactor=1.5))]
            if self.level > 1:
                variants.append(("merged_image/dipole_monte_carlo", lambda: MergedImageCoulombPotential(), True,
                                 lambda p: DipoleMonteCarloEstimator(potential=p, dipole_separation=0.05 * self.length,
                                                                     number_trials=60, prefactor=2.0)))
        else:
            variants = [("merged_image/inner_point", lambda: MergedImageCoulombPotential(), True,
                         lambda p: InnerPointEstimator(potential=p, points_per_side=3)),
                        ("inverse_power_6_no_charge/inner_point",
                         lambda: InversePowerPotential(power=6.0, prefactor=1.0e-4 * self.length ** 6), False,
                         lambda p: InnerPointEstimator(potential=p, points_per_side=3))]
        for variant_index, (name, make_true, use_charge, make_estimator) in enumerate(variants):
            share = count // len(variants) + (1 if variant_index < count % len(variants) else 0)
            if share == 0:
                continue
            charge = "charge" if use_charge else None
            random.seed(1000 + self.seed)       # DipoleMonteCarloEstimator draws from the global generator
            bounding = CellBoundingPotential(estimator=make_estimator(make_true()))
            with open(os.devnull, "w") as devnull, mock.patch("sys.stdout", devnull):
                if composite:
                    handler = TwoCompositeObjectCellBoundingPotentialEventHandler(
                        potential=make_true(), bounding_potential=bounding,
                        lifting=(InsideFirstLifting if (variant_index + self.seed) % 2 == 0 else RatioLifting)(),
                        charge=charge)
                    family = "comp_cell/%s/n%d/%s" % (name, n, "x".join(map(str, sides)))
                else:
                    handler = TwoLeafUnitCellBoundingPotentialEventHandler(
                        potential=make_true(), bounding_potential=bounding, charge=charge)
                    family = "leaf_cell/%s/n%d/%s" % (name, n, "x".join(map(str, sides)))
                handler.initialize(cells)
            true_oracle = make_true()
            for _ in range(share):
                spec = self.make_spec(n, composite, self.cell_placement(sides, n, "root"),
                                      "full" if composite or n == 1 else "leaf")
                spec["reverse_order"] = rng.random() < 0.5
                if not composite and n > 1:
                    # the cells contain the point masses: both point masses of the factor must be in non-nearby cells
                    a, targets = self.pairs(spec)
                    da, dt_ = self.digits(a["pos"], sides), self.digits(targets[0]["pos"], sides)
                    if da is None or dt_ is None or self.nearby(self.offset(dt_, da, sides), sides):
                        continue
                # pass 1: learn the (constant) proposal rate with the draw 1.0, then choose the draw such that the
                # unit that defines the active cell stays inside its cell
                probe = Draws([1.0], [0.5])
                state = self.in_state(spec)
                p1, p2, p3 = probe.patches()
                with p1, p2, p3:
                    try:
                        event_time = handler.send_event_time(state)
                    except Exception as exc:
                        self.bad("send_event_time raised %s: %s" % (type(exc).__name__, str(exc)[:100]),
                                 family=family, state=self.describe(spec))
                        continue
                dt0 = event_time - self.Time.from_float(spec["t0"])
                if math.isinf(dt0) or not dt0 > 0.0:
                    self.cases += 1
                    self.skipped["not_proposed"] += 1
                    continue
                rate = 1.0 / self.setting.beta / dt0
                active_obj = spec["objects"][spec["active"][0]]
                if composite:
                    wall = self.distance_to_cell_wall(active_obj["centre"], spec["direction"], sides) * n
                else:
                    wall = self.distance_to_cell_wall(active_obj["leaves"][spec["active"][1]]["pos"],
                                                      spec["direction"], sides)
                dt_wanted = rng.choice((1e-9, rng.uniform(0.05, 0.9))) * wall / spec["speed"]
                self.run_state(family, spec, handler, [rate * dt_wanted * self.setting.beta], "quotient", true_oracle,
                               None, use_charge, probe_rate=rate)

    # ---------------------------------------------------------------------------------------------------------------
    def family_cell_veto(self, count, n, composite, sides):
        from jellyfysh.activator.internal_state.cell_occupancy.cells.cuboid_periodic_cells import CuboidPeriodicCells
        from jellyfysh.estimator.inner_point_estimator import InnerPointEstimator
        from jellyfysh.estimator.dipole_inner_point_estimator import DipoleInnerPointEstimator
        from jellyfysh.event_handler.leaf_unit_cell_veto_event_handler import LeafUnitCellVetoEventHandler
        from jellyfysh.event_handler.composite_object_cell_veto_event_handler import CompositeObjectCellVetoEventHandler
        from jellyfysh.lifting.inside_first_lifting import InsideFirstLifting
        from jellyfysh.potential.merged_image_coulomb_potential import MergedImageCoulombPotential
        cells = CuboidPeriodicCells(cells_per_side=list(sides), neighbor_layers=1)
        if composite:
            def make_estimator():
                return DipoleInnerPointEstimator(potential=MergedImageCoulombPotential(),
                                                 dipole_separation=0.05 * self.length, points_per_side=2, prefactor=1.5)
            handler = CompositeObjectCellVetoEventHandler(estimator=make_estimator(), lifting=InsideFirstLifting(),
                                                          charge="charge")
            family = "comp_veto/n%d/%s" % (n, "x".join(map(str, sides)))
            cell_level = 1
        else:
            def make_estimator():
                return InnerPointEstimator(potential=MergedImageCoulombPotential(), points_per_side=3)
            handler = LeafUnitCellVetoEventHandler(estimator=make_estimator(), charge="charge")
            family = "leaf_veto/n%d/%s" % (n, "x".join(map(str, sides)))
            cell_level = 1 if n == 1 else 2
        with open(os.devnull, "w") as devnull, mock.patch("sys.stdout", devnull):
            handler.initialize(cells, cell_level)
        veto = {"sides": sides, "estimator": make_estimator(), "cells": cells, "bounds": {}, "composite": composite,
                "cell_by_digits": {tuple(c.identifier): c for c in cells.yield_cells()}}
        true_oracle = MergedImageCoulombPotential()
        for _ in range(count):
            spec = self.make_spec(n, False, self.cell_placement(sides, n, "root"),
                                  "full" if composite or n == 1 else "leaf")
            # pass 1 with the draw 1.0: total proposal rate; then a draw that keeps the active unit in its cell
            probe = Draws([1.0], [0.5])
            state = self.in_state(spec, ("active",))
            p1, p2, p3 = probe.patches()
            with p1, p2, p3:
                try:
                    event_time, _cells = handler.send_event_time(state)
                except Exception as exc:
                    self.bad("send_event_time raised %s: %s" % (type(exc).__name__, str(exc)[:100]),
                             family=family, state=self.describe(spec))
                    continue
            dt0 = event_time - self.Time.from_float(spec["t0"])
            if math.isinf(dt0) or not dt0 > 0.0:
                self.cases += 1
                self.skipped["not_proposed"] += 1
                continue
            active_obj = spec["objects"][spec["active"][0]]
            if composite:
                wall = self.distance_to_cell_wall(active_obj["centre"], spec["direction"], sides) * n
            else:
                wall = self.distance_to_cell_wall(active_obj["leaves"][spec["active"][1]]["pos"],
                                                  spec["direction"], sides)
            dt_wanted = self.rng.choice((1e-9, self.rng.uniform(0.05, 0.9))) * wall / spec["speed"]
            veto["probe_total"] = 1.0 / self.setting.beta / dt0
            self.run_state(family, spec, handler, [dt_wanted / dt0], "veto", true_oracle, None, True, veto=veto)

    def veto_bound(self, veto, offset, direction):
        """Upper and lower estimator bound for a cell offset, recomputed from the corners of the cells."""
        key = (offset, direction)
        if key not in veto["bounds"]:
            cell = veto["cell_by_digits"][offset]
            zero = veto["cell_by_digits"][(0, 0, 0)]
            lower = [cell.cell_min[d] - zero.cell_max[d] for d in range(3)]
            upper = [cell.cell_max[d] - zero.cell_min[d] for d in range(3)]
            veto["bounds"][key] = tuple(veto["estimator"].derivative_bound(lower, upper, direction,
                                                                           calculate_lower_bound=True))
        return veto["bounds"][key]

    def veto_prepare(self, spec, veto, target_cells, dt, exponentials, draws, ctx, first):
        """After the first send_event_time of a cell-veto state: place the target object in the sampled cell, compute
        the proposal rate of that cell offset and check the total proposal rate."""
        rng, sides, length = self.rng, veto["sides"], self.length
        direction, speed = spec["direction"], spec["speed"]
        active_obj = spec["objects"][spec["active"][0]]
        a_leaf = active_obj["leaves"][spec["active"][1]]
        cell_position = active_obj["centre"] if veto["composite"] else a_leaf["pos"]
        # position of the cell-level unit at the candidate time (it moves with speed / n if it is the root unit)
        factor = 1.0 / spec["n"] if veto["composite"] else 1.0
        moved = list(cell_position)
        moved[direction] = wrap(moved[direction] + factor * speed * dt, length)
        start_digits, end_digits = self.digits(cell_position, sides), self.digits(moved, sides)
        if start_digits is None or end_digits is None or start_digits != end_digits:
            self.skipped["left_cell"] += 1
            return False
        self.evaluations += 1
        if len(target_cells) != 1:
            self.bad("cell-veto send_event_time did not return exactly one target cell", **ctx)
            return False
        target_digits = tuple(target_cells[0].identifier)
        offset = self.offset(target_digits, start_digits, sides)
        if self.nearby(offset, sides):
            self.bad("cell-veto proposed an event with a nearby (excluded) cell", offset=offset, **ctx)
            return False
        charge = a_leaf["charge"]["charge"]
        upper, lower = self.veto_bound(veto, offset, direction)
        space_bound = upper * charge if charge > 0.0 else lower * charge
        first["veto_bound"] = speed * space_bound
        # total proposal rate = sum over all offsets of the clipped bounds
        total = 0.0
        for digits_ in veto["cell_by_digits"]:
            if not self.nearby(digits_, sides):
                up, low = self.veto_bound(veto, digits_, direction)
                total += max(0.0, up * charge if charge > 0.0 else low * charge)
        proposed_total = veto["probe_total"]        # measured with the probe draw 1.0
        expected_dt = exponentials[0] / self.setting.beta / (speed * total) if total > 0.0 else math.inf
        self.evaluations += 1
        if not (abs(proposed_total - speed * total) <= REL_B_QUOTIENT * speed * total
                and abs(dt - expected_dt) <= REL_B_QUOTIENT * expected_dt + 1e-14):
            self.bad("(a) cell-veto: the candidate time is not drawn from speed * sum of the clipped cell bounds",
                     proposed_rate=proposed_total, expected=speed * total, dt=dt, expected_dt=expected_dt, **ctx)
            return False
        # the target object: somewhere in the sampled cell (or no object there)
        first["target_present"] = rng.random() < 0.93
        cell = target_cells[0]
        target_obj = spec["objects"][1 - spec["active"][0]]
        n = spec["n"]
        size = 0.03 * length if n > 1 else 0.0
        centre = [rng.uniform(cell.cell_min[d], cell.cell_max[d]) for d in range(3)]
        if self.digits(centre, sides) != target_digits:
            self.skipped["left_cell"] += 1
            return False
        if veto["composite"] or n == 1:
            pts = self.molecule(centre, n, size) if n > 1 else [centre]
        else:
            # the cells contain point masses: the target leaf sits in the cell, its partner next to it
            pts = [[c + rng.uniform(-size, size) for c in centre] for _ in range(n)]
            pts[spec["target_leaf"]] = centre
        target_obj["centre"] = [wrap(sum(p[d] for p in pts) / n, length) for d in range(3)] if n > 1 else list(centre)
        for leaf, p in zip(target_obj["leaves"], pts):
            leaf["pos"] = [wrap(c, length) for c in p]
        ctx["state"] = self.describe(spec)
        if not first["target_present"]:
            # no unit in the sampled cell: the out-state is the time-sliced in-state
            first["empty_cell"] = True
        return True

    # ---------------------------------------------------------------------------------------------------------------
    def run(self):
        started = _time.time()
        self.imports()
        level = self.level
        boxes = [1.0, 2.7] if level == 1 else [1.0, 2.7, 0.6, 11.0]
        per = 4 if level == 1 else 16
        for box_index, length in enumerate(boxes):
            beta = (1.0, 2.0, 0.5, 1.0)[box_index % 4]
            # ---- bounding potential = scaled nearest-image 1/r
            self.setup(length, 1, beta)
            self.family_inverse_power_bound(60 * per, 1, False)
            self.setup(length, 2, beta)
            self.family_inverse_power_bound(40 * per, 2, False)
            self.family_inverse_power_bound(90 * per, 2, True)
            self.setup(length, 3, beta)
            self.family_inverse_power_bound(60 * per, 3, True)
            if level > 1:
                self.setup(length, 4, beta)
                self.family_inverse_power_bound(20 * per, 4, True)
            # ---- cell bounding potentials
            grids = [(4, 4, 4)] if level == 1 else [(4, 4, 4), (3, 5, 4), (5, 5, 5)]
            for sides in grids[: (1 if box_index > 1 else len(grids))]:
                self.setup(length, 1, beta)
                self.family_cell_bound(40 * per, 1, False, sides)
                self.family_cell_veto(30 * per, 1, False, sides)
                self.setup(length, 2, beta)
                self.family_cell_bound(20 * per, 2, False, sides)
                self.family_cell_bound(50 * per, 2, True, sides)
                self.family_cell_veto(15 * per, 2, False, sides)
                self.family_cell_veto(30 * per, 2, True, sides)
                self.setup(length, 3, beta)
                self.family_cell_bound(30 * per, 3, True, sides)
                self.family_cell_veto(20 * per, 3, True, sides)
        self.setting.reset()
        return {"evaluations": self.evaluations, "cases": self.cases, "violations": self.violations,
                "samples": self.samples, "send_out_state_calls": self.calls, "confirmed_calls": self.confirmed_calls,
                "cases_per_family": self.per_family, "not_evaluated": self.skipped,
                "observations": {"count": self.observation_count, "examples": self.observations},
                "seconds": round(_time.time() - started, 1),
                "rule": "Seeded random states (box lengths, 3 directions, speeds, time stamps, charge assignments incl. "
                        "multi-entry charge dictionaries, single point masses / dipoles / triples, free and cell-"
                        "constrained geometries) for six real thinning handlers with real potentials/estimators; one "
                        "case = one state, driven through send_event_time + send_out_state once per confirmation draw "
                        "(0, q-delta, q+delta, inside (0,B), B); evaluations = individual clause checks (a)-(d)."}


if __name__ == "__main__":
    harness = Harness(int(sys.argv[1]), int(sys.argv[2]))
    print("BOUNDED-RESULT " + json.dumps(harness.run(), default=str))
