"""C04 (domination clause) - BOUNDED stand-in: the supremum of (true Ewald rate / scaled nearest-image 1/r bound rate)
over a continuous 3-D domain is a transcendental optimisation no SMT back end here decides.  Deterministic grid in
the minimum-image cube (both charge-product signs, three directions, several box lengths) plus seeded local
refinements around the worst grid points; requires  true <= bound  wherever true > 0, and reports the measured
maximum of the ratio (a third-digit change of the 1.5837 prefactor becomes visible)."""
import itertools
import json
import math
import os
import random
import sys

REPO = os.environ.get("VERIF_REPO", "/repo")


def run(n, seed):
    sys.path.insert(0, REPO)
    from monitors.harness import build_c_extensions, preload_extensions
    preload_extensions(build_c_extensions(REPO))
    import jellyfysh.setting as setting
    from jellyfysh.setting import hypercubic_setting
    evaluations, worst, violations, samples = 0, 0.0, [], []
    rng = random.Random(seed)
    for L in (1.0, 2.0, 3.7):
        setting.reset()
        hypercubic_setting.HypercubicSetting(beta=1.0, dimension=3, system_length=L)
        setting.set_number_of_root_nodes(2)
        setting.set_number_of_nodes_per_root_node(1)
        setting.set_number_of_node_levels(1)
        from jellyfysh.potential.merged_image_coulomb_potential.merged_image_coulomb_potential import MergedImageCoulombPotential
        from jellyfysh.potential.inverse_power_coulomb_bounding_potential.inverse_power_coulomb_bounding_potential import \
            InversePowerCoulombBoundingPotential
        true = MergedImageCoulombPotential()
        bound = InversePowerCoulombBoundingPotential()
        pts = [(-0.5 + i / n) * L for i in range(n + 1)]     # includes the faces, edges and corners of the cube
        hot = []

        def check(s, sign, d):
            nonlocal evaluations, worst
            v = [0.0, 0.0, 0.0]
            v[d] = 1.0
            q_true = true.derivative(v, list(s), 1.0, sign)
            q_bound = bound.derivative(v, list(s), 1.0, sign)
            evaluations += 1
            if q_true > 1e-9 / (L * L):     # below that: zero by symmetry up to rounding (the rate scale is 1/L^2)
                ratio = q_true / q_bound if q_bound > 0 else math.inf
                worst = max(worst, ratio)
                if ratio > 1.0 + 1e-12:
                    if len(violations) < 5:
                        violations.append({"what": "bounding rate below the true rate (or not positive where the true rate is)",
                                           "L": L, "separation": list(s), "charge_product": sign, "direction": d,
                                           "true": q_true, "bound": q_bound})
                return ratio
            return 0.0
        for s in itertools.product(pts, repeat=3):
            if s[0] * s[0] + s[1] * s[1] + s[2] * s[2] < (0.02 * L) ** 2:
                continue
            for sign in (1.0, -1.0):
                for d in range(3):
                    r = check(s, sign, d)
                    if r > 0.97:
                        hot.append((r, s, sign, d))
        hot.sort(reverse=True)
        for r, s, sign, d in hot[:40]:
            for _ in range(25):
                t = tuple(min(max(c + rng.uniform(-0.5, 0.5) * L / n, -0.5 * L), 0.5 * L) for c in s)
                check(t, sign, d)
        if len(samples) < 3:
            samples.append({"L": L, "grid": n, "max_ratio_so_far": worst})
    return {"evaluations": evaluations, "max_ratio": worst, "violations": violations, "samples": samples, "grid": n}


if __name__ == "__main__":
    print("BOUNDED-RESULT " + json.dumps(run(int(sys.argv[1]), int(sys.argv[2]))))
