"""C16 - BOUNDED stand-in for CuboidCells / CuboidPeriodicCells (itertools.product, generators, dict/set of cells and
struct-based float stepping are outside the verifier's subset).

EXHAUSTIVE over the stated finite space: every grid with dimension 1..3, box lengths from BOXES, cells per side from
SIDES per direction and neighbour layers 0..2 (the 1-D family is the wide one: seven lengths x 17 cell counts, since
the directions of a cuboid grid are independent and the float questions - n*(L/n) != L, L/n not representable - are
per direction).  For each grid, natively on the real classes:
  partition : extents strictly ordered, consecutive cells abut (next min == float successor of this max), first min 0,
              last max the float below L; position_to_cell of every probe position (cell min / max, their float
              neighbours, midpoints, 0, the float below L - all combinations over the directions) returns a cell whose
              recorded extent contains the position;
  torus     : neighbor_cell = digit +-1 (mod n, or None at a wall); nearby_cells = all offsets within the layers
              (symmetric, contains the cell); relative_cell / translate = digit arithmetic mod n and
              translate(ref, relative_cell(c, ref)) == c."""
import itertools
import json
import math
import os
import sys

REPO = os.environ.get("VERIF_REPO", "/repo")
BOXES = {1: [(1.0,), (2.7,), (1.7,), (0.3,), (3.3,), (10.1,), (0.07,)], 2: [(1.0, 1.0), (1.0, 1.5)], 3: [(1.0, 1.0, 1.0), (1.0, 1.5, 2.3)]}
SIDES = {1: list(range(1, 17)) + [49], 2: [1, 2, 3, 5], 3: [1, 2, 3]}


def setup(lengths):
    sys.path.insert(0, REPO)
    import jellyfysh.setting as setting
    from jellyfysh.setting import hypercubic_setting, hypercuboid_setting
    setting.reset()
    dim = len(lengths)
    if len(set(lengths)) == 1:
        hypercubic_setting.HypercubicSetting(beta=1.0, dimension=dim, system_length=lengths[0])
    else:
        hypercuboid_setting.HypercuboidSetting(system_lengths=list(lengths), beta=1.0, dimension=dim)
    setting.set_number_of_root_nodes(2)
    setting.set_number_of_nodes_per_root_node(1)
    setting.set_number_of_node_levels(1)


def torus(cells, allc, byid, sides, layers, periodic, dim, info, bad, counter):
    evaluations = 0
    if True:
        if True:
            if True:
                if True:
                    if True:
                        for c in allc:
                            cid = tuple(c.identifier)
                            for d in range(dim):
                                for positive in (True, False):
                                    evaluations += 1
                                    nb = cells.neighbor_cell(c, d, positive)
                                    k = cid[d] + (1 if positive else -1)
                                    if periodic:
                                        want = tuple((k % sides[d]) if e == d else cid[e] for e in range(dim))
                                        if nb is None or tuple(nb.identifier) != want:
                                            bad("neighbor_cell is not digit +-1 mod n", cell=cid, direction=d, positive=positive, **info)
                                    else:
                                        want = None if not (0 <= k < sides[d]) else tuple(k if e == d else cid[e] for e in range(dim))
                                        got = None if nb is None else tuple(nb.identifier)
                                        if got != want:
                                            bad("neighbor_cell wrong at/inside the wall", cell=cid, direction=d, positive=positive, **info)
                            near = {tuple(x.identifier) for x in cells.nearby_cells(c)}
                            want = set()
                            for off in itertools.product(range(-layers, layers + 1), repeat=dim):
                                t = tuple(cid[d] + off[d] for d in range(dim))
                                if periodic:
                                    want.add(tuple(t[d] % sides[d] for d in range(dim)))
                                elif all(0 <= t[d] < sides[d] for d in range(dim)):
                                    want.add(t)
                            evaluations += 1
                            if near != want or cid not in near:
                                bad("nearby_cells differs from the offsets within the neighbour layers", cell=cid, **info)
                            if periodic:
                                for o in allc[:: max(1, len(allc) // 6)]:
                                    oid = tuple(o.identifier)
                                    evaluations += 1
                                    if (cid in {tuple(x.identifier) for x in cells.nearby_cells(o)}) != (oid in near):
                                        bad("nearby relation is not symmetric", cell=cid, other=oid, **info)
                                    rel = cells.relative_cell(c, o)
                                    if tuple(rel.identifier) != tuple((cid[d] - oid[d]) % sides[d] for d in range(dim)):
                                        bad("relative_cell is not the digit difference mod n", cell=cid, reference=oid, **info)
                                    elif cells.translate(o, rel) is not c:
                                        bad("translate does not invert relative_cell", cell=cid, reference=oid, **info)
    counter[0] += evaluations


def run(level):
    sys.path.insert(0, REPO)
    evaluations, grids, violations, samples = 0, 0, [], []
    counter = [0]

    def bad(what, **kw):
        if len(violations) < 8:
            violations.append(dict(what=what, **kw))
    for dim in (1, 2, 3):
        for lengths in BOXES[dim]:
            setup(lengths)
            from jellyfysh.activator.internal_state.cell_occupancy.cells.cuboid_cells import CuboidCells
            from jellyfysh.activator.internal_state.cell_occupancy.cells.cuboid_periodic_cells import CuboidPeriodicCells
            for sides in itertools.product(SIDES[dim], repeat=dim):
                for layers in ((0, 1, 2) if level > 1 else (1,)):
                    for cls in (CuboidPeriodicCells, CuboidCells):
                        periodic = cls is CuboidPeriodicCells
                        if periodic and any(2 * layers + 1 > n for n in sides):
                            continue
                        grids += 1
                        info = {"class": cls.__name__, "lengths": lengths, "cells_per_side": sides, "layers": layers}
                        try:
                            cells = cls(cells_per_side=list(sides), neighbor_layers=layers)
                        except Exception as e:
                            bad("constructor raised %s: %s" % (type(e).__name__, str(e)[:80]), **info)
                            continue
                        allc = list(cells.yield_cells())
                        byid = {tuple(c.identifier): c for c in allc}
                        evaluations += 1
                        if len(allc) != math.prod(sides) or set(byid) != set(itertools.product(*[range(n) for n in sides])):
                            bad("identifiers are not the full mixed-radix range", **info)
                            continue
                        # ---- partition
                        for d in range(dim):
                            line = [byid[tuple(i if e == d else 0 for e in range(dim))] for i in range(sides[d])]
                            evaluations += 1
                            if line[0].cell_min[d] != 0.0:
                                bad("first cell does not start at 0", direction=d, **info)
                            if line[-1].cell_max[d] != math.nextafter(lengths[d], 0.0):
                                bad("last cell does not end at the float below L (grid does not cover [0, L))",
                                    direction=d, cell_max=line[-1].cell_max[d], **info)
                            for a, b in zip(line, line[1:]):
                                evaluations += 1
                                if not (a.cell_min[d] < a.cell_max[d]) or b.cell_min[d] != math.nextafter(a.cell_max[d], math.inf):
                                    bad("consecutive cells do not abut (gap or overlap)", direction=d,
                                        max=a.cell_max[d], next_min=b.cell_min[d], **info)
                        probes = []
                        for d in range(dim):
                            ps = {0.0, math.nextafter(lengths[d], 0.0)}
                            for i in range(sides[d]):
                                c = byid[tuple(i if e == d else 0 for e in range(dim))]
                                lo, hi = c.cell_min[d], c.cell_max[d]
                                ps |= {lo, hi, (lo + hi) / 2.0, math.nextafter(lo, math.inf), math.nextafter(hi, 0.0)}
                            probes.append(sorted(p for p in ps if 0.0 <= p < lengths[d]))
                        # all combinations for dim <= 2, a diagonal-ish subset for dim 3
                        combos = itertools.product(*probes) if dim <= 2 else \
                            [tuple(probes[d][(k * (d + 1)) % len(probes[d])] for d in range(dim)) for k in range(60)] + \
                            [tuple(probes[d][-1] for d in range(dim)), tuple(probes[d][0] for d in range(dim))]
                        for pos in combos:
                            evaluations += 1
                            try:
                                c = cells.position_to_cell(list(pos))
                            except Exception as e:
                                bad("position_to_cell raised %s for a position in the box" % type(e).__name__, position=pos, **info)
                                break
                            if any(not (c.cell_min[d] <= pos[d] <= c.cell_max[d]) for d in range(dim)):
                                bad("position_to_cell returned a cell whose extent does not contain the position",
                                    position=pos, cell=tuple(c.identifier), **info)
                                break
                        # ---- torus relations
                        try:
                            torus(cells, allc, byid, sides, layers, periodic, dim, info, bad, counter)
                        except Exception as e:
                            bad("a neighbour / nearby / relative / translate query raised %s: %s" % (type(e).__name__, str(e)[:80]), **info)
                        evaluations += counter[0]
                        counter[0] = 0
                        for c in []:
                            cid = tuple(c.identifier)
                            for d in range(dim):
                                for positive in (True, False):
                                    evaluations += 1
                                    nb = cells.neighbor_cell(c, d, positive)
                                    k = cid[d] + (1 if positive else -1)
                                    if periodic:
                                        want = tuple((k % sides[d]) if e == d else cid[e] for e in range(dim))
                                        if nb is None or tuple(nb.identifier) != want:
                                            bad("neighbor_cell is not digit +-1 mod n", cell=cid, direction=d, positive=positive, **info)
                                    else:
                                        want = None if not (0 <= k < sides[d]) else tuple(k if e == d else cid[e] for e in range(dim))
                                        got = None if nb is None else tuple(nb.identifier)
                                        if got != want:
                                            bad("neighbor_cell wrong at/inside the wall", cell=cid, direction=d, positive=positive, **info)
                            near = {tuple(x.identifier) for x in cells.nearby_cells(c)}
                            want = set()
                            for off in itertools.product(range(-layers, layers + 1), repeat=dim):
                                t = tuple(cid[d] + off[d] for d in range(dim))
                                if periodic:
                                    want.add(tuple(t[d] % sides[d] for d in range(dim)))
                                elif all(0 <= t[d] < sides[d] for d in range(dim)):
                                    want.add(t)
                            evaluations += 1
                            if near != want or cid not in near:
                                bad("nearby_cells differs from the offsets within the neighbour layers", cell=cid, **info)
                            if periodic:
                                for o in allc[:: max(1, len(allc) // 6)]:
                                    oid = tuple(o.identifier)
                                    evaluations += 1
                                    if (cid in {tuple(x.identifier) for x in cells.nearby_cells(o)}) != (oid in near):
                                        bad("nearby relation is not symmetric", cell=cid, other=oid, **info)
                                    rel = cells.relative_cell(c, o)
                                    if tuple(rel.identifier) != tuple((cid[d] - oid[d]) % sides[d] for d in range(dim)):
                                        bad("relative_cell is not the digit difference mod n", cell=cid, reference=oid, **info)
                                    elif cells.translate(o, rel) is not c:
                                        bad("translate does not invert relative_cell", cell=cid, reference=oid, **info)
                        if len(samples) < 3:
                            samples.append(info)
                        if len(violations) >= 8:
                            return {"grids": grids, "evaluations": evaluations, "violations": violations, "samples": samples}
    return {"grids": grids, "evaluations": evaluations, "violations": violations, "samples": samples}


if __name__ == "__main__":
    print("BOUNDED-RESULT " + json.dumps(run(int(sys.argv[1])), default=str))
