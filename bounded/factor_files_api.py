"""C10 (factor-file clause) - BOUNDED harness for FactorTypeMaps / FactorTypeMapInStateTagger.

Property: for factor sets read from a factor file, the in-states generated for an active point mass are exactly the
index sets of the file (of the tagger's factor type) that contain it, instantiated once for an intra-object index set
and once per OTHER composite object for an inter-object index set.  Nobody missed, nobody twice.

Reading of "contain it" (fixed by the docstring of FactorTypeMaps - active (0, 1), "[1, 4], LennardJones", three
molecules -> exactly ((0, 1), (1, 1)) and ((0, 1), (2, 1)) - and by the shipped files, which list "[0, 3]" AND "[1, 2]"
for one and the same kind of pair): the file describes the factors from the point of view of the FIRST composite object;
the active point mass (r, j) is matched against the first-object indices (index < n) only.  An index j + n in an index
set stands for point mass j of the OTHER object and does not by itself create an in-state for the active (r, j).

For each generated (factor file, n = point masses per composite object, R = number of composite objects) the REAL
FactorTypeMaps is built from the file written to a temporary directory, and for every factor type of the file a REAL
FactorTypeMapInStateTagger (light-weight stand-in for the event handler).  Then, for EVERY active point mass (r, j):
  tagger : multiset of tagger.yield_identifiers_send_event_time([branch with the one active leaf (r, j)])
  map    : multiset of factor_type_maps[type].yield_factor_identifier((r, j))     (the tagger wraps this in set(), which
           would hide a doubly generated in-state, so the lower level is compared as well)
both against an independent recomputation from an own parse of the text of the file (ordered tuples, in the order in
which the indices are written in the file; a difference in order only is reported under its own clause).  In addition
  branch : active states with several active leaves (a whole composite object; several composite objects): the tagger
           yields exactly the set union of the expected in-states of the active leaves, each once.

Well-formed files only (what the parser and _FactorTypeMap.local demand): no blank lines, '#' comments, indices
< 2 n, a factor type is either intra-object or inter-object throughout, an index set is not repeated (in any order)
under the same factor type - it may be repeated under OTHER types.  For n = 1 (shipped coulomb-atoms file) the
identifiers are (r,) and only sorted pairs are written.

Observation (NOT counted as violation, reported under "observations"): for an INTRA-object factor type whose index sets
do not cover the active index, the expected answer is "no in-state"; the tree under test raises KeyError instead of
yielding nothing (the inter-object code path tests `in self._map`).  The harness requires only that no in-state is
produced in that situation and counts how often the KeyError form occurs.
"""
import collections
import itertools
import json
import os
import random
import re
import shutil
import sys
import tempfile
import warnings

REPO = os.environ.get("VERIF_REPO", "/repo")

WORDS = ["Alpha", "Beta", "Gamma", "Delta", "Epsilon", "Zeta"]
NAMES = WORDS + [a + b for a in WORDS for b in WORDS]          # 42 CamelCase factor type names
REAL_NAMES = ["Harmonic", "Bending", "LennardJones", "Coulomb", "Repulsive", "Dipole", "Sphere"]


# ----------------------------------------------------------------------------------------------------------------------
# Independent side: own parse of the file text, own snake case, own expectation.
# ----------------------------------------------------------------------------------------------------------------------
def own_snake(name):
    return re.sub(r"(?<!^)([A-Z])", r"_\1", name).lower()


def own_parse(text):
    """{factor type: [index list as written, ...]} in file order; '#' lines are comments."""
    factors = collections.OrderedDict()
    for line in text.split("\n"):
        if line == "" or line[0] == "#":
            continue
        left, right = line.index("["), line.index("]")
        indices = [int(token) for token in line[left + 1:right].split(",")]
        rest = line[right + 1:]
        assert rest[:2] == ", " and rest[2:].isalpha(), line
        factors.setdefault(rest[2:], []).append(indices)
    return factors


def identifier(root, leaf, n):
    return (root,) if n == 1 else (root, leaf)


def expected_in_states(index_sets, active_root, active_leaf, number_roots, n):
    """List (multiset) of ordered in-state identifiers for ONE active point mass."""
    result = []
    for index_set in index_sets:
        if active_leaf not in index_set:            # first-object indices are < n, so this is the first-object role
            continue
        if max(index_set) < n:
            result.append(tuple(identifier(active_root, index, n) for index in index_set))
        else:
            for other in range(number_roots):
                if other == active_root:
                    continue
                result.append(tuple(identifier(active_root, index, n) if index < n
                                    else identifier(other, index - n, n) for index in index_set))
    return result


def members(counter):
    """Multiset of unordered member sets (to tell 'wrong order' from 'missed / twice')."""
    out = collections.Counter()
    for in_state, count in counter.items():
        try:
            out[frozenset(in_state)] += count
        except TypeError:
            out[repr(in_state)] += count
    return out


# ----------------------------------------------------------------------------------------------------------------------
# Factor files: (label, text, n)
# ----------------------------------------------------------------------------------------------------------------------
def render(entries, comments=False):
    lines = ["# generated factor file"] if comments else []
    for index_set, name in entries:
        lines.append("[" + ", ".join(str(i) for i in index_set) + "], " + name)
        if comments and len(lines) % 4 == 0:
            lines.append("#[0, 1], Commented")
    return "\n".join(lines) + "\n"


def shipped_files():
    directory = os.path.join(REPO, "jellyfysh", "config_files", "factor_set_files")
    for filename, n in (("factor_set_coulomb_atoms.txt", 1), ("factor_set_dipoles_atomic.txt", 2),
                        ("factor_set_dipoles_dipole.txt", 2), ("factor_set_hard_disk_dipoles.txt", 2),
                        ("factor_set_water.txt", 3), ("factor_set_water_atomic.txt", 3)):
        path = os.path.join(directory, filename)
        if os.path.exists(path):
            with open(path) as file:
                yield "shipped " + filename, file.read(), n


def reordered_shipped_files(level):
    """The shipped files with every index set rewritten: reversed; rotated; (level 2) second object first."""
    for label, text, n in shipped_files():
        if n == 1:
            continue
        parsed = own_parse(text)
        entries = [(s, name) for name, sets in parsed.items() for s in sets]
        variants = [("reversed", lambda s: s[::-1]), ("rotated", lambda s: s[1:] + s[:1])]
        if level > 1:
            variants.append(("second object first", lambda s: [i for i in s if i >= n] + [i for i in s if i < n]))
            variants.append(("interleaved", lambda s: [x for pair in itertools.zip_longest(
                [i for i in s if i >= n], [i for i in s if i < n]) for x in pair if x is not None]))
        for what, function in variants:
            yield label + " (" + what + ")", render([(function(list(s)), name) for s, name in entries]), n


def hand_written_files():
    yield ("hand-written water, inter-molecular factors from both points of view, mixed order", render([
        ([0, 1], "Harmonic"), ([2, 1], "Harmonic"), ([2, 1, 0], "Bending"), ([1, 4], "LennardJones"),
        ([0, 3], "Coulomb"), ([0, 4], "Coulomb"), ([0, 5], "Coulomb"), ([4, 1], "Coulomb"), ([1, 3], "Coulomb"),
        ([1, 5], "Coulomb"), ([3, 2], "Coulomb"), ([2, 4], "Coulomb"), ([5, 2], "Coulomb")], comments=True), 3)
    yield ("hand-written dipoles, merged Coulomb second object first", render([
        ([1, 0], "Harmonic"), ([3, 0], "Repulsive"), ([1, 2], "Repulsive"), ([2, 3, 0, 1], "Coulomb")]), 2)
    yield ("hand-written dipoles, same pairs under three types", render([
        ([0, 1], "Harmonic"), ([0, 1], "Dipole"), ([2, 0], "Coulomb"), ([0, 2], "Repulsive"), ([2, 0], "Sphere"),
        ([3, 1], "Coulomb"), ([1, 3], "Repulsive"), ([3, 0], "Coulomb"), ([2, 1], "Coulomb")]), 2)
    yield ("hand-written 4-site molecule, one-body and four-body intra factors, interleaved inter factors", render([
        ([0], "Alpha"), ([1], "Alpha"), ([2], "Alpha"), ([3], "Alpha"), ([3, 1, 0, 2], "Beta"), ([0, 1, 2], "Gamma"),
        ([3, 2, 1], "Gamma"), ([0, 3], "Gamma"), ([4, 0, 5, 1], "Delta"), ([2, 6, 3, 7], "Delta"),
        ([7, 3], "Epsilon"), ([0, 7], "Epsilon"), ([6, 5, 1, 2], "Epsilon"), ([4, 5, 6, 7, 0], "Zeta"),
        ([4, 5, 6, 1, 7], "Zeta"), ([4, 5, 2, 6, 7], "Zeta"), ([3, 4, 5, 6, 7], "Zeta")], comments=True), 4)
    yield ("hand-written water, merged Coulomb in descending order", render([
        ([1, 0], "Harmonic"), ([1, 2], "Harmonic"), ([0, 1, 2], "Bending"), ([4, 1], "LennardJones"),
        ([5, 4, 3, 2, 1, 0], "Coulomb")]), 3)
    yield ("hand-written point particles", render([([0, 1], "Coulomb"), ([0, 1], "LennardJones")]), 1)


def inter_sets(n, sizes):
    for size in sizes:
        for subset in itertools.combinations(range(2 * n), size):
            if subset[0] < n <= subset[-1]:
                yield subset


def every_order_files(level, rng):
    """One inter-object index set, written in EVERY order, each order under its own factor type (<= 42 per file)."""
    plan = {2: (2, 3, 4), 3: (2, 3, 4), 4: (2, 3, 4)} if level > 1 else {2: (2, 3, 4), 3: (2, 3, 4), 4: (2, 3)}
    for n, sizes in plan.items():
        for subset in inter_sets(n, sizes):
            orders = list(itertools.permutations(subset))
            for start in range(0, len(orders), len(NAMES)):
                chunk = orders[start:start + len(NAMES)]
                yield ("index set {0} in every order ({1}..)".format(list(subset), start),
                       render(list(zip(chunk, NAMES))), n)
    # larger index sets: seeded sample of orders (all 720 orders of the full n = 3 set at level 2)
    if level > 1:
        orders = list(itertools.permutations(range(6)))
        for start in range(0, len(orders), len(NAMES)):
            yield ("full two-molecule set of n = 3 in every order ({0}..)".format(start),
                   render(list(zip(orders[start:start + len(NAMES)], NAMES))), 3)
    for n, sizes, number in ((4, (4,), 12), (3, (5, 6), 6), (4, (5, 6, 7, 8), 10)) if level == 1 else \
            ((4, (5, 6, 7, 8), 250), (3, (5,), 40)):
        candidates = list(inter_sets(n, sizes))
        for _ in range(number):
            subset = list(rng.choice(candidates))
            orders = []
            for name in NAMES[:24]:
                order = subset[:]
                rng.shuffle(order)
                orders.append((order, name))
            yield "index set {0} in 24 seeded orders".format(subset), render(orders), n


def random_order(index_set, n, rng):
    style = rng.randrange(6)
    index_set = sorted(index_set)
    if style == 0:
        return index_set
    if style == 1:
        return index_set[::-1]
    if style == 2:
        return [i for i in index_set if i >= n] + [i for i in index_set if i < n]
    out = index_set[:]
    rng.shuffle(out)
    return out


def random_files(level, rng, number):
    for file_number in range(number):
        n = rng.choice([2, 3, 4] if level == 1 else [2, 3, 4, 4, 5])
        names = rng.sample(REAL_NAMES + WORDS + NAMES[6:12], rng.randrange(1, 7))
        entries, pool = [], []
        for name in names:
            sets = []
            if rng.random() < 0.4:
                # intra-object type: index sets of size 1..min(n, 4); mostly (not always) covering all point masses
                for _ in range(rng.randrange(1, 5)):
                    sets.append(rng.sample(range(n), rng.randrange(1, min(n, 4) + 1)))
                if rng.random() < 0.75:
                    missing = [i for i in range(n) if not any(i in s for s in sets)]
                    if missing:
                        sets.append(missing if rng.random() < 0.5 else missing + rng.sample(
                            [i for i in range(n) if i not in missing], rng.randrange(0, n - len(missing) + 1)))
            else:
                for _ in range(rng.randrange(1, 7)):
                    if pool and rng.random() < 0.3:
                        candidate = rng.choice(pool)              # the same index set under another type
                        if max(candidate) >= n:
                            sets.append(list(candidate))
                            continue
                    first = rng.sample(range(n), rng.randrange(1, n + 1))
                    second = rng.sample(range(n, 2 * n), rng.randrange(1, n + 1))
                    if rng.random() < 0.5:                       # keep most index sets small (size 2..4)
                        first, second = first[:rng.randrange(1, 3)], second[:rng.randrange(1, 3)]
                    sets.append(first + second)
            unique = []
            for s in sets:
                if sorted(s) not in [sorted(u) for u in unique]:
                    unique.append(s)
            for s in unique:
                written = random_order(s, n, rng)
                entries.append((written, name))
                pool.append(written)
        rng.shuffle(entries)
        yield "seeded random file {0}".format(file_number), render(entries, comments=rng.random() < 0.3), n


# ----------------------------------------------------------------------------------------------------------------------
# Driving the real classes.
# ----------------------------------------------------------------------------------------------------------------------
class Harness(object):
    def __init__(self, level, seed):
        self.level, self.seed = level, seed
        self.evaluations = 0
        self.cases = 0
        self.violations = []
        self.number_violations = 0
        self.recorded = set()
        self.samples = []
        self.keyerror_uncovered_local = 0
        self.empty_uncovered_local = 0
        self.in_states_compared = 0
        self.directory = None
        self.file_counter = 0

    def bad(self, what, **details):
        self.number_violations += 1
        key = (what, details.get("file"))            # at most one record per (clause, file): varied examples
        if len(self.violations) < 8 and key not in self.recorded:
            self.recorded.add(key)
            self.violations.append(dict(what=what, **details))

    def imports(self):
        sys.path.insert(0, REPO)
        warnings.filterwarnings("ignore")
        import logging
        logging.disable(logging.CRITICAL)
        import jellyfysh.setting as setting
        from jellyfysh.setting import hypercubic_setting
        from jellyfysh.activator.tagger.factor_type_maps import FactorTypeMaps
        from jellyfysh.activator.tagger.factor_type_map_in_state_tagger import FactorTypeMapInStateTagger
        from jellyfysh.base.node import Node
        from jellyfysh.base.unit import Unit
        from jellyfysh.base.time import Time
        from jellyfysh.event_handler import EventHandler
        self.setting, self.hypercubic_setting = setting, hypercubic_setting
        self.FactorTypeMaps, self.Tagger = FactorTypeMaps, FactorTypeMapInStateTagger
        self.Node, self.Unit, self.Time = Node, Unit, Time
        loaded = os.path.realpath(sys.modules[FactorTypeMaps.__module__].__file__)
        assert loaded.startswith(os.path.realpath(REPO) + os.sep), "code under test loaded from " + loaded

        class StandInEventHandler(object):
            """Never used by the tagger methods under test (only stored and listed)."""
        self.event_handler = StandInEventHandler()

    def configure(self, n, number_roots):
        self.setting.reset()
        self.FactorTypeMaps._instance = None
        self.hypercubic_setting.HypercubicSetting(beta=1.0, dimension=3, system_length=1.0)
        self.setting.set_number_of_root_nodes(number_roots)
        self.setting.set_number_of_nodes_per_root_node(n)
        self.setting.set_number_of_node_levels(1 if n == 1 else 2)

    def branch(self, root, leaves, n):
        """Root cnode of an active branch containing only the given active leaves of composite object `root`."""
        zero = self.Time.from_float(0.0)
        if n == 1:
            return self.Node(self.Unit(identifier=(root,), position=[0.5, 0.5, 0.5], velocity=[1.0, 0.0, 0.0],
                                       time_stamp=zero), weight=1)
        node = self.Node(self.Unit(identifier=(root,), position=[0.5, 0.5, 0.5],
                                   velocity=[len(leaves) / n, 0.0, 0.0], time_stamp=zero), weight=1)
        for leaf in leaves:
            node.add_child(self.Node(self.Unit(identifier=(root, leaf), position=[0.5, 0.5, 0.5],
                                               velocity=[1.0, 0.0, 0.0], time_stamp=zero), weight=1.0 / n))
        return node

    def compare(self, level_name, generated, expected, info):
        """One evaluation: generated multiset == expected multiset (ordered tuples)."""
        self.evaluations += 1
        self.in_states_compared += sum(expected.values())
        if generated == expected:
            return
        if members(generated) == members(expected):
            self.bad(level_name + ": the in-states contain the right point masses, but not in the order in which the "
                     "file lists them", generated=sorted(map(repr, generated.elements()))[:6],
                     expected=sorted(map(repr, expected.elements()))[:6], **info)
            return
        for in_state in sorted(set(generated) | set(expected), key=repr):
            if generated[in_state] != expected[in_state]:
                kind = ("missed" if generated[in_state] < expected[in_state] else
                        "generated too often" if expected[in_state] else "generated but not an index set of the file "
                        "containing the active point mass")
                self.bad(level_name + ": in-state " + kind, in_state=repr(in_state), generated=generated[in_state],
                         expected=expected[in_state], **info)
                return

    def collect(self, function, argument):
        """Multiset of what the generator yields; ('KeyError', partial) if it raises KeyError."""
        got = collections.Counter()
        try:
            for in_state in function(argument):
                got[in_state] += 1
        except KeyError:
            return got, True
        return got, False

    def check_case(self, label, text, n, number_roots, rng):
        self.cases += 1
        self.configure(n, number_roots)
        self.file_counter += 1
        filename = os.path.join(self.directory, "factor_set_{0}.txt".format(self.file_counter))
        with open(filename, "w") as file:
            file.write(text)
        parsed = own_parse(text)
        base = {"file": label, "text": text if len(text) < 400 else text[:400] + "...",
                "point_masses_per_object": n, "objects": number_roots}
        try:
            maps = self.FactorTypeMaps(filename)
        except Exception as error:
            self.evaluations += 1
            self.bad("well-formed factor file rejected: {0}: {1}".format(type(error).__name__, str(error)[:100]),
                     **base)
            os.remove(filename)
            return
        os.remove(filename)
        if len(self.samples) < 3 and (self.cases in (1, 40) or label.startswith("seeded random")):
            self.samples.append({"file": label, "lines": [l for l in text.split("\n") if l and l[0] != "#"][:8],
                                 "point_masses_per_object": n, "objects": number_roots,
                                 "factor_types": list(parsed)})
        for number, (name, index_sets) in enumerate(parsed.items()):
            info = dict(base, factor_type=name, index_sets=index_sets if len(index_sets) < 20 else index_sets[:20])
            try:
                if (self.cases + number) % 2:
                    tagger = self.Tagger(create=[], trash=[], event_handler=self.event_handler,
                                         number_event_handlers=1, factor_type_maps=maps,
                                         tag="tag_" + own_snake(name), factor_type_maps_label=own_snake(name))
                else:       # label taken from the tag
                    tagger = self.Tagger(create=[], trash=[], event_handler=self.event_handler,
                                         number_event_handlers=1, factor_type_maps=maps, tag=own_snake(name))
                tagger.initialize()
                factor_type_map = maps[name]
            except Exception as error:
                self.evaluations += 1
                self.bad("tagger construction raised {0}: {1}".format(type(error).__name__, str(error)[:100]), **info)
                continue
            local = all(max(s) < n for s in index_sets)
            covered = set(i for s in index_sets for i in s if i < n)
            per_leaf = {}
            for root in range(number_roots):
                for leaf in range(n):
                    active = dict(info, active=list(identifier(root, leaf, n)))
                    expected_list = expected_in_states(index_sets, root, leaf, number_roots, n)
                    expected = collections.Counter(expected_list)
                    per_leaf[(root, leaf)] = expected_list
                    uncovered_local = local and leaf not in covered
                    for level_name, function, argument in (
                            ("tagger", tagger.yield_identifiers_send_event_time, [self.branch(root, [leaf], n)]),
                            ("map", factor_type_map.yield_factor_identifier, identifier(root, leaf, n))):
                        try:
                            generated, key_error = self.collect(function, argument)
                        except Exception as error:
                            self.evaluations += 1
                            self.bad(level_name + ": raised {0}: {1}".format(type(error).__name__, str(error)[:100]),
                                     **active)
                            continue
                        if key_error and not uncovered_local:
                            self.evaluations += 1
                            self.bad(level_name + ": KeyError for an active point mass that occurs in an index set "
                                     "of the factor type" if leaf in covered else
                                     level_name + ": KeyError for an active point mass of an inter-object factor type",
                                     **active)
                            continue
                        if uncovered_local:
                            if key_error:
                                # found on the pinned tree and repaired (known_findings.txt, fixed: C10): a point mass
                                # in no index set of an intra-object type takes part in no factor - KeyError is wrong
                                self.keyerror_uncovered_local += 1
                                self.evaluations += 1
                                self.bad(level_name + ": KeyError instead of no in-state for an active point mass that "
                                         "occurs in no index set of an intra-object factor type", **active)
                                continue
                            else:
                                self.empty_uncovered_local += 1
                        self.compare(level_name, generated, expected, active)
            # ---- several active leaves: whole composite object(s); seeded subsets
            states = [[(0, list(range(n)))], [(number_roots - 1, list(range(n)))]]
            if number_roots > 2:
                states.append([(r, list(range(n))) for r in range(number_roots)])
            for _ in range(2):
                roots = rng.sample(range(number_roots), rng.randrange(1, number_roots + 1))
                states.append([(r, sorted(rng.sample(range(n), rng.randrange(1, n + 1)))) for r in roots])
            for state in states:
                if local and any(leaf not in covered for _, leaves in state for leaf in leaves):
                    continue
                expected = collections.Counter(set(in_state for root, leaves in state for leaf in leaves
                                                   for in_state in per_leaf[(root, leaf)]))
                active = dict(info, active_leaves=[list(identifier(r, l, n)) for r, ls in state for l in ls])
                try:
                    generated, key_error = self.collect(tagger.yield_identifiers_send_event_time,
                                                        [self.branch(r, ls, n) for r, ls in state])
                except Exception as error:
                    key_error, generated = True, "{0}: {1}".format(type(error).__name__, str(error)[:100])
                if key_error:
                    self.evaluations += 1
                    self.bad("branch: the tagger raised for an active state with several active leaves",
                             raised=repr(generated)[:120], **active)
                    continue
                self.compare("branch", generated, expected, active)

    def run(self):
        rng = random.Random(self.seed)
        self.imports()
        self.directory = tempfile.mkdtemp(prefix="factor_files_api_")
        try:
            level = self.level
            root_numbers = (2, 3, 4) if level == 1 else (2, 3, 4, 5)
            fixed = list(shipped_files()) + list(reordered_shipped_files(level)) + list(hand_written_files())
            self.number_shipped = len(list(shipped_files()))
            for label, text, n in fixed:
                for number_roots in root_numbers:
                    self.check_case(label, text, n, number_roots, rng)
            for label, text, n in every_order_files(level, rng):
                for number_roots in (2, 3, 4):
                    self.check_case(label, text, n, number_roots, rng)
            for label, text, n in random_files(level, rng, 1500 if level == 1 else 18000):
                for number_roots in root_numbers:
                    self.check_case(label, text, n, number_roots, rng)
        finally:
            shutil.rmtree(self.directory, ignore_errors=True)
            try:
                self.setting.reset()
                self.FactorTypeMaps._instance = None
            except Exception:
                pass
        return {
            "evaluations": self.evaluations, "cases": self.cases, "violations": self.violations,
            "number_of_violating_evaluations": self.number_violations, "samples": self.samples,
            "in_states_compared": self.in_states_compared,
            "observations": {
                "intra_type_active_index_in_no_index_set": {
                    "KeyError_instead_of_no_in_state": self.keyerror_uncovered_local,
                    "no_in_state": self.empty_uncovered_local,
                    "note": "not a violation of 'exactly the index sets containing it' in terms of in-states (none is "
                            "produced), but the tree raises KeyError where the inter-object path yields nothing"}},
            "rule": "Cases = (factor file, point masses per object n in 1..4 (5 at level 2), number of objects R in "
                    "2..4 (5 at level 2)): the {0} shipped files, their re-ordered rewrites, hand-written files, every "
                    "inter-object index set of size 2..4 over n = 2, 3, 4 written in every order (larger ones in "
                    "seeded orders), and seeded random well-formed files (several types, intra sets of size 1..4, "
                    "duplicates of a set under other types, comments). One evaluation = one multiset comparison of the "
                    "in-states of one (case, factor type, active point mass or multi-leaf active state) at the tagger "
                    "or at the map level against an own parse of the file text.".format(self.number_shipped)}


if __name__ == "__main__":
    result = Harness(int(sys.argv[1]) if len(sys.argv) > 1 else 1, int(sys.argv[2]) if len(sys.argv) > 2 else 0).run()
    print("BOUNDED-RESULT " + json.dumps(result))
