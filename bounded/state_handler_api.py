"""C13 - BOUNDED stand-in for TreeStateHandler / TreePhysicalState / TreeLiftingState (recursion over Node trees, dicts
keyed by identifier tuples, sets and generators are outside the verifier's subset).

The contract clauses of DESIGN section 4 (C13.1-4) are evaluated natively against a reference model on EVERY sequence of
at most DEPTH operations over EVERY tree shape in SHAPES - an exhaustive enumeration of a stated finite space:
  operations: peek(id) = extract and mutate every position / velocity / time stamp of the branch in place, never insert;
  move(id) / stop(id) = extract, give the node a velocity and time stamp / remove them, insert the branch;
  stop-parent(leaf) = extract the leaf's branch, put the composite object in it to rest, insert;
  active = extract_active (values compared, then mutated in place); global = extract_global.
Checked after every operation: the global state equals the reference model (so extraction and mutation of a branch
change nothing, an insert changes exactly the inserted identifiers), extracted branches hold the node, its ancestors and
all descendants with the current values and share no mutable object with the global state or with one another, and
extract_active yields exactly the independently moving units."""
import copy
import itertools
import json
import os
import sys

REPO = os.environ.get("VERIF_REPO", "/repo")
SHAPES = [(1, 0), (2, 0), (1, 2), (2, 2), (1, 3)]      # (roots, leaves per root); 0 = point masses only


def build(shape):
    sys.path.insert(0, REPO)
    import jellyfysh.setting as setting
    from jellyfysh.setting import hypercubic_setting
    from jellyfysh.base.node import Node
    from jellyfysh.base.unit import Unit
    from jellyfysh.state_handler.tree_state_handler import TreeStateHandler
    from jellyfysh.state_handler.physical_state.tree_physical_state import TreePhysicalState
    from jellyfysh.state_handler.lifting_state.tree_lifting_state import TreeLiftingState
    setting.reset()
    hypercubic_setting.HypercubicSetting(beta=1.0, dimension=2, system_length=1.0)
    roots, kids = shape
    setting.set_number_of_root_nodes(roots)
    setting.set_number_of_nodes_per_root_node(max(kids, 1))
    setting.set_number_of_node_levels(2 if kids else 1)
    nodes = []
    for r in range(roots):
        rn = Node(Unit((r,), [0.1 * (r + 1), 0.2], None), weight=1)
        for k in range(kids):
            rn.add_child(Node(Unit((r, k), [0.1 * (r + 1) + 0.01 * k, 0.3], {"e": float(k)}), weight=1.0 / kids))
        nodes.append(rn)
    sh = TreeStateHandler(TreePhysicalState(), TreeLiftingState())
    sh.initialize(nodes)
    return sh


def ids_of(shape):
    roots, kids = shape
    out = []
    for r in range(roots):
        out.append((r,))
        for k in range(kids):
            out.append((r, k))
    return out


def flat(roots):
    out = {}

    def visit(n):
        u = n.value
        out[tuple(u.identifier)] = (list(u.position), None if u.velocity is None else list(u.velocity),
                                    None if u.time_stamp is None else (u.time_stamp.quotient, u.time_stamp.remainder))
        for c in n.children:
            visit(c)
    for r in roots:
        visit(r)
    return out


def mutable_ids(roots):
    s = set()

    def visit(n):
        s.add(id(n))
        s.add(id(n.value))
        s.add(id(n.value.position))
        if n.value.velocity is not None:
            s.add(id(n.value.velocity))
        if n.value.time_stamp is not None:
            s.add(id(n.value.time_stamp))
        for c in n.children:
            visit(c)
    for r in roots:
        visit(r)
    return s


def run(depth, budget_s=None):
    from jellyfysh.base.time import Time
    evaluations, sequences, violations = 0, 0, []
    samples = []

    def mutate(n):
        n.value.position[0] += 0.5
        if n.value.velocity is not None:
            n.value.velocity[0] += 1.0
        if n.value.time_stamp is not None:
            n.value.time_stamp.update(Time(77.0, 0.5))
        for c in n.children:
            mutate(c)

    def find(b, ident):
        node = b
        while tuple(node.value.identifier) != ident:
            node = [c for c in node.children if tuple(c.value.identifier) == ident[:len(c.value.identifier)]][0]
        return node

    import time as _time
    t_start = _time.time()
    truncated = []
    for shape_no, shape in enumerate(SHAPES):
        # wall-clock budget (thorough tier): every shape gets an equal share; a shape whose enumeration is cut is reported
        shape_deadline = None if budget_s is None else t_start + budget_s * (shape_no + 1) / len(SHAPES)
        ids = ids_of(shape)
        roots_, kids = shape
        ops = [("peek", i) for i in ids] + [("move", i) for i in ids] + [("stop", i) for i in ids] + \
              [("stop-parent", i) for i in ids if len(i) == 2] + [("active",)]
        for seq in itertools.product(ops, repeat=depth):
            if shape_deadline is not None and sequences % 512 == 0 and _time.time() > shape_deadline:
                truncated.append(list(shape))
                break
            sequences += 1
            sh = build(shape)
            model = flat(sh.extract_global_state())
            branches = []
            stamp = 1
            ok = True
            for op in seq:
                if op[0] in ("peek", "move", "stop", "stop-parent"):
                    b = sh.extract_from_global_state(op[1])
                    got = flat([b])
                    want_ids = {i for i in model if i == op[1][:len(i)] or i[:len(op[1])] == op[1]}
                    evaluations += 1
                    if set(got) != want_ids or any(got[i] != model[i] for i in got):
                        violations.append({"shape": shape, "sequence": seq, "what": "extracted branch != node + ancestors + descendants with current values", "identifier": op[1]})
                        ok = False
                        break
                    if op[0] == "peek":
                        mutate(b)            # uncommitted changes must stay invisible
                        branches.append(b)
                    else:
                        node = find(b, op[1])
                        if op[0] == "move":
                            stamp += 1
                            node.value.velocity = [1.0, 0.0]
                            node.value.time_stamp = Time(float(stamp), 0.25)
                        elif op[0] == "stop":
                            node.value.velocity = None
                            node.value.time_stamp = None
                        else:       # the composite object in the branch of one of its point masses is put to rest
                            b.value.velocity = None
                            b.value.time_stamp = None
                        ins = flat([b])
                        sh.insert_into_global_state([b])
                        for i, v in ins.items():
                            model[i] = copy.deepcopy(v)
                elif op[0] == "active":
                    act = sh.extract_active_global_state()
                    # a branch is rooted at the root node; a leaf's branch holds only that leaf below the root
                    got = sorted(tuple(n.children[0].value.identifier) if len(n.children) == 1 else tuple(n.value.identifier)
                                 for n in act)
                    moving = {i for i, v in model.items() if v[1] is not None}
                    want = set()
                    for i in moving:
                        if len(i) == 1 and not kids:
                            want.add(i)
                        elif len(i) == 1 and {(i[0], k) for k in range(kids)} <= moving:
                            want.add(i)
                    for i in moving:
                        if len(i) == 2 and (i[0],) in moving and (i[0],) not in want:
                            want.add(i)
                    evaluations += 1
                    if got != sorted(want):
                        violations.append({"shape": shape, "sequence": seq, "what": "extract_active != independently moving units", "got": got, "want": sorted(want)})
                        ok = False
                        break
                    gotv = flat(act)
                    evaluations += 1
                    if any(gotv[i] != model[i] for i in gotv):
                        violations.append({"shape": shape, "sequence": seq, "what": "extract_active handed out values that are not the committed ones"})
                        ok = False
                        break
                    for n in act:
                        mutate(n)
                        branches.append(n)
                g = sh.extract_global_state()
                evaluations += 1
                if flat(g) != model:
                    diff = [i for i in model if flat(g).get(i) != model[i]]
                    violations.append({"shape": shape, "sequence": seq, "what": "global state differs from the reference model "
                                       "(extraction/mutation leaked, or insert changed other than the inserted values)", "identifiers": diff[:4]})
                    ok = False
                    break
                own = mutable_ids(sh._physical_state._root_nodes)
                for b in branches:
                    evaluations += 1
                    if mutable_ids([b]) & own:
                        violations.append({"shape": shape, "sequence": seq, "what": "an extracted branch shares a mutable object with the global state"})
                        ok = False
                        break
                if not ok:
                    break
            if len(samples) < 3 and ok:
                samples.append({"shape": shape, "sequence": [list(map(str, o)) for o in seq]})
            if len(violations) >= 5:
                break
        if len(violations) >= 5:
            break
    return {"sequences": sequences, "evaluations": evaluations, "violations": violations, "samples": samples,
            "shapes": SHAPES, "depth": depth, "truncated_shapes": truncated}


if __name__ == "__main__":
    print("BOUNDED-RESULT " + json.dumps(run(int(sys.argv[1]), float(sys.argv[2]) if len(sys.argv) > 2 else None), default=str))
