"""C11 (+ the cell-partition clause of C10) - BOUNDED, seeded mini event loop on the REAL SingleActiveCellOccupancy,
CuboidPeriodicCells, CellBoundaryTagger / CellBoundaryEventHandler and TreeStateHandler, with the real ExcludedCellsTagger,
SurplusCellsTagger, CellBoundingPotentialTagger and CellVetoTagger (+ a real LeafUnitCellVetoEventHandler with a stub
estimator) reading the same occupancy.

A CASE is one seeded event history: a box (2-D / 3-D, cubic through hypercubic_setting, cubic through hypercuboid_setting,
non-cubic), a grid (3..6 cells per side, independently per direction), 0..2 neighbour layers, an occupant limit
(1, 2, 3, unbounded as -1 and as 0), an optional charge filter (charge values positive, zero and negative), a tree shape
(atoms; composite objects stored on cell level 1; leaves of composite objects stored on cell level 2), 3..12 units on
the cell level (crowded into few cells so that surplus lists are used, some exactly on cell boundaries), and then LEGS:
   boundary leg : the candidate time and the out-state come from the real CellBoundaryEventHandler;
   lifting leg  : at a time before the candidate cell-boundary time (0, random, 0.999 of it) the active unit is
                  time-sliced by the harness, put to rest, and another leaf unit (in another cell / the same cell / a
                  surplus unit / a sibling) becomes active, possibly with a new velocity (+-axis, speeds != 1, sometimes
                  a general vector).
At the beginning of every leg the occupancy is updated with extract_active_global_state() exactly as the TagActivator
does, and the inline monitor recomputes FROM SCRATCH (own arithmetic: truncated float division of the position read
from the global state by the cell side, own periodic index distance for "nearby") and checks every clause:
   C11 a  every relevant non-active unit is recorded exactly once (occupant lists + surplus lists), in the cell that
          contains its position; irrelevant units and unknown identifiers are recorded nowhere;
   C11 b  the active unit is in neither list and yield_active_cells gives exactly (its cell, its identifier) - or
          nothing if it does not pass the charge filter; the CellBoundaryTagger in-state is exactly the active unit;
   C11 c  no cell lists more occupants than the limit;
   C11 d  the candidate cell-boundary time is the time at which the active unit reaches the boundary of the cell that
          contains it (own kinematics, tolerance 1e-9 on times of order 1); at a lifting before that time the unit is
          still in its recorded cell; after the cell-boundary event it is in the neighbouring cell (index +-1 mod n in
          the crossing direction, unchanged elsewhere) at the predicted position (tolerance 1e-9, periodic distance);
   C10    the targets of {nearby occupants (ExcludedCellsTagger), surplus units (SurplusCellsTagger), occupants of
          non-nearby cells (CellBoundingPotentialTagger)} and of {nearby, surplus, cell veto (the cells the real
          cell-veto handler can sample, translated to the active cell, looked up in the occupancy)} each form a partition
          of all other relevant units; nearby targets really are nearby, non-nearby targets really are not; the cells
          the cell-veto handler can sample are exactly the non-nearby cells, each once.
No tolerance is used for cell membership (exact float convention of the cell system)."""
import contextlib
import io
import json
import math
import os
import random
import sys
import warnings
from unittest import mock

warnings.filterwarnings("ignore")
REPO = os.environ.get("VERIF_REPO", "/repo")
sys.path.insert(0, REPO)
TOL = 1.0e-9

BOXES = [(1.0, 1.0), (2.0, 1.0), (1.0, 3.0), (1.7, 1.7), (1.0, 1.0, 1.0), (1.0, 1.5, 0.75), (2.0, 2.0, 1.0), (1.3, 0.9, 2.3)]
LIMITS = [1, 2, 3, -1, 0]
MODES = ["atoms", "composite_l1", "leaves_l2"]
PATTERNS = [[1.0, -1.0], [1.0, -1.0, 0.0], [0.41, -0.82, 0.41], [1.0, 0.0], [-1.0, -2.0, 0.0], [2.0, -0.5, 0.0, 1.0], [-1.0],
            [0.0, 3.0, -3.0]]


# ---------------------------------------------------------------------------------------------------------------------
# own arithmetic (independent of the cell system of the repository)
# ---------------------------------------------------------------------------------------------------------------------
def own_cell(position, lengths, sides):
    return tuple(min(int(position[d] / (lengths[d] / sides[d])), sides[d] - 1) for d in range(len(sides)))


def own_nearby(a, b, sides, layers):
    for d in range(len(sides)):
        diff = abs(a[d] - b[d])
        if min(diff, sides[d] - diff) > layers:
            return False
    return True


def own_wrap(a, length):
    r = a % length
    if r >= length:             # tiny negative a: a % L == L in floating point
        r = math.nextafter(length, 0.0) if a < 0.0 else 0.0
    return r


def periodic_distance(a, b, length):
    d = abs(a - b)
    return min(d, abs(length - d))


def own_times_to_boundary(position, velocity, lengths, sides):
    """For every direction with a velocity component: (time, sign) at which the boundary of the own cell is reached."""
    cell = own_cell(position, lengths, sides)
    out = {}
    for d, v in enumerate(velocity):
        if v == 0.0:
            continue
        side = lengths[d] / sides[d]
        if v > 0.0:
            upper = lengths[d] if cell[d] == sides[d] - 1 else (cell[d] + 1) * side
            out[d] = ((upper - position[d]) / v, 1)
        else:
            out[d] = ((position[d] - cell[d] * side) / -v, -1)
    return out


# ---------------------------------------------------------------------------------------------------------------------
# case generation
# ---------------------------------------------------------------------------------------------------------------------
def odd_length(rng):
    return round(rng.uniform(0.6, 3.0), rng.choice([1, 2, 3]))


def make_config(rng, combo, level):
    lengths, limit, mode, filtered, declared = combo
    if level > 1 and rng.random() < 0.4:
        dim = len(lengths)
        lengths = tuple(odd_length(rng) for _ in range(dim)) if len(set(lengths)) > 1 else (odd_length(rng),) * dim
    dim = len(lengths)
    sides = [rng.randint(3, 6) for _ in range(dim)]
    if rng.random() < 0.3:
        sides = [sides[0]] * dim
    number = rng.choice([3, 4, 5, 6, 7, 8])
    many = dim == 2 and rng.random() < 0.15
    if many:                     # more units than cells * limit
        sides, number = [3, 3], rng.choice([10, 11, 12])
        limit = 1
    layers = 1
    r = rng.random()
    if r < 0.15:
        layers = 0
    elif r < 0.3 and min(sides) >= 5:
        layers = 2
    per_root = 1 if mode == "atoms" else rng.choice([2, 3])
    if mode == "leaves_l2":
        roots = max(2, -(-number // per_root))
    else:
        roots = number
    if mode == "composite_l1":
        filtered = False         # the constructor refuses a charge for composite objects
    pattern = rng.choice(PATTERNS if filtered else PATTERNS + [[1.0]])
    short = len(set(sides)) == 1 and rng.random() < 0.5
    return {"lengths": tuple(lengths), "declared_as": declared if len(set(lengths)) == 1 else "hypercuboid",
            "cells_per_side": sides, "short_cells_argument": short, "layers": layers, "limit": limit, "mode": mode,
            "charge_filter": "q" if filtered else None, "charges": pattern, "roots": roots, "per_root": per_root}


def boundary_values(rng, length, n):
    side = length / n
    k = rng.randrange(n)
    b = k * side
    choice = rng.randrange(6)
    if choice == 0:
        return b
    if choice == 1:
        return math.nextafter(b, math.inf)
    if choice == 2:
        return math.nextafter(b, 0.0) if b > 0.0 else 0.0
    if choice == 3:
        return 0.0
    if choice == 4:
        return math.nextafter(length, 0.0)
    return min((k + 1) * side, math.nextafter(length, 0.0))


def make_positions(rng, cfg, count):
    lengths, sides = cfg["lengths"], cfg["cells_per_side"]
    dim = len(lengths)
    out = []
    for i in range(count):
        r = rng.random()
        if i > 0 and r < 0.4:
            base = out[rng.randrange(len(out))]
            p = []
            for d in range(dim):
                side = lengths[d] / sides[d]
                lo = own_cell(base, lengths, sides)[d] * side
                x = base[d] + rng.choice([1.0e-6, 1.0e-3, 0.1, 0.3]) * side * rng.random()
                if not (x < min(lo + side, lengths[d])) or own_cell([x if e == d else base[e] for e in range(dim)], lengths, sides)[d] \
                        != own_cell(base, lengths, sides)[d]:
                    x = base[d]
                p.append(x)
        elif r < 0.6:
            p = [boundary_values(rng, lengths[d], sides[d]) if rng.random() < 0.6 else rng.random() * lengths[d]
                 for d in range(dim)]
        else:
            p = [rng.random() * lengths[d] for d in range(dim)]
        p = [x if x < lengths[d] else math.nextafter(lengths[d], 0.0) for d, x in enumerate(p)]
        out.append(p)
    return out


def make_velocity(rng, dim):
    if rng.random() < 0.15:
        return [rng.choice([1.0, -1.0]) * rng.uniform(0.25, 2.0) for _ in range(dim)]
    speed = rng.choice([1.0, 1.0, 1.0, 0.5, 2.0, rng.uniform(0.25, 2.0)])
    d = rng.randrange(dim)
    sign = rng.choice([1.0, -1.0])
    return [sign * speed if e == d else 0.0 for e in range(dim)]


# ---------------------------------------------------------------------------------------------------------------------
# one case
# ---------------------------------------------------------------------------------------------------------------------
class Stop(Exception):
    pass


class Case(object):
    def __init__(self, cfg, rng, stats, coverage, case_number):
        self.cfg, self.rng, self.stats, self.coverage, self.case_number = cfg, rng, stats, coverage, case_number
        self.history = []
        self.leg = -1
        self.sides = cfg["cells_per_side"]
        self.dim = len(cfg["lengths"])

    def bad(self, what, **kw):
        record = {"what": what, "case": self.case_number, "leg": self.leg}
        record.update(kw)
        record["config"] = self.cfg
        record["last_legs"] = self.history[-5:]
        self.stats["violations"].append(record)
        raise Stop()

    def ev(self, n=1):
        self.stats["evaluations"] += n

    def cover(self, key):
        self.coverage[key] = self.coverage.get(key, 0) + 1

    # ---- set-up of the real objects
    def build(self):
        import jellyfysh.setting as setting
        from jellyfysh.setting import hypercubic_setting, hypercuboid_setting
        from jellyfysh.activator.internal_state.single_active_cell_occupancy import SingleActiveCellOccupancy
        from jellyfysh.activator.internal_state.cell_occupancy.cells.cuboid_periodic_cells import CuboidPeriodicCells
        from jellyfysh.activator.tagger.cell_boundary_tagger import CellBoundaryTagger
        from jellyfysh.activator.tagger.cell_bounding_potential_tagger import CellBoundingPotentialTagger
        from jellyfysh.activator.tagger.cell_veto_tagger import CellVetoTagger
        from jellyfysh.activator.tagger.excluded_cells_tagger import ExcludedCellsTagger
        from jellyfysh.activator.tagger.surplus_cells_tagger import SurplusCellsTagger
        from jellyfysh.base.node import Node
        from jellyfysh.base.time import Time
        from jellyfysh.base.unit import Unit
        from jellyfysh.estimator import Estimator
        from jellyfysh.event_handler.cell_boundary_event_handler import CellBoundaryEventHandler
        from jellyfysh.event_handler.leaf_unit_cell_veto_event_handler import LeafUnitCellVetoEventHandler
        from jellyfysh.event_handler.two_leaf_unit_bounding_potential_event_handler import \
            TwoLeafUnitBoundingPotentialEventHandler
        from jellyfysh.event_handler.two_leaf_unit_cell_bounding_potential_event_handler import \
            TwoLeafUnitCellBoundingPotentialEventHandler
        from jellyfysh.potential.inverse_power_potential import InversePowerPotential
        from jellyfysh.state_handler.tree_state_handler import TreeStateHandler
        from jellyfysh.state_handler.physical_state.tree_physical_state import TreePhysicalState
        from jellyfysh.state_handler.lifting_state.tree_lifting_state import TreeLiftingState
        self.Time = Time
        cfg, rng = self.cfg, self.rng
        lengths = cfg["lengths"]
        dim = self.dim = len(lengths)
        self.sides = cfg["cells_per_side"]
        self.setting = setting
        setting.reset()
        if cfg["declared_as"] == "hypercubic":
            hypercubic_setting.HypercubicSetting(beta=1.0, dimension=dim, system_length=lengths[0])
        else:
            hypercuboid_setting.HypercuboidSetting(beta=1.0, dimension=dim, system_lengths=list(lengths))
        levels = 1 if cfg["mode"] == "atoms" else 2
        setting.set_number_of_root_nodes(cfg["roots"])
        setting.set_number_of_nodes_per_root_node(cfg["per_root"])
        setting.set_number_of_node_levels(levels)
        self.cell_level = 2 if cfg["mode"] == "leaves_l2" else 1

        # ---- the tree
        roots, per_root = cfg["roots"], cfg["per_root"]
        pattern = cfg["charges"]
        self.leaves = []
        self.charge_of = {}
        nodes = []
        if cfg["mode"] == "atoms":
            positions = make_positions(rng, cfg, roots)
            for r in range(roots):
                charge = {"q": pattern[r % len(pattern)], "one": 1.0}
                nodes.append(Node(Unit((r,), list(positions[r]), charge), weight=1))
                self.leaves.append((r,))
                self.charge_of[(r,)] = charge
        else:
            if cfg["mode"] == "leaves_l2":
                leaf_positions = make_positions(rng, cfg, roots * per_root)
                root_positions = [leaf_positions[r * per_root] for r in range(roots)]
            else:
                root_positions = make_positions(rng, cfg, roots)
                leaf_positions = []
                for r in range(roots):
                    for k in range(per_root):
                        leaf_positions.append([own_wrap(root_positions[r][d] + rng.uniform(-0.05, 0.05) * lengths[d] / self.sides[d],
                                                        lengths[d]) for d in range(dim)])
            for r in range(roots):
                root = Node(Unit((r,), list(root_positions[r]), None), weight=1)
                for k in range(per_root):
                    index = r * per_root + k
                    charge = {"q": pattern[index % len(pattern)], "one": 1.0}
                    root.add_child(Node(Unit((r, k), list(leaf_positions[index]), charge), weight=1.0 / per_root))
                    self.leaves.append((r, k))
                    self.charge_of[(r, k)] = charge
                nodes.append(root)
        self.cl_units = [(r,) for r in range(roots)] if self.cell_level == 1 else list(self.leaves)
        self.sh = TreeStateHandler(TreePhysicalState(), TreeLiftingState())
        self.sh.initialize(nodes)

        # ---- cells, occupancy, taggers
        argument = [self.sides[0]] if cfg["short_cells_argument"] else list(self.sides)
        self.cells = CuboidPeriodicCells(cells_per_side=argument, neighbor_layers=cfg["layers"])
        self.byid = {tuple(c.identifier): c for c in self.cells.yield_cells()}
        self.all_cell_ids = sorted(self.byid)
        self.ev()
        if len(self.byid) != math.prod(self.sides):
            self.bad("the cell system does not have prod(cells_per_side) cells", found=len(self.byid))
        self.occ = SingleActiveCellOccupancy(cells=self.cells, cell_level=self.cell_level,
                                             maximum_number_occupants=cfg["limit"], charge=cfg["charge_filter"])
        self.occ.initialize(self.sh.extract_global_state())
        label = "single_active_cell_occupancy"
        self.t_boundary = CellBoundaryTagger(create=[], trash=[], event_handler=CellBoundaryEventHandler(),
                                             internal_state_label=label)
        self.t_near = ExcludedCellsTagger(create=[], trash=[], number_event_handlers=1,
                                          event_handler=mock.MagicMock(spec=TwoLeafUnitBoundingPotentialEventHandler),
                                          internal_state_label=label, tag="nearby")
        self.t_surplus = SurplusCellsTagger(create=[], trash=[], number_event_handlers=1,
                                            event_handler=mock.MagicMock(spec=TwoLeafUnitBoundingPotentialEventHandler),
                                            internal_state_label=label, tag="surplus")
        self.t_bounding = CellBoundingPotentialTagger(
            create=[], trash=[], number_event_handlers=1,
            event_handler=mock.MagicMock(spec=TwoLeafUnitCellBoundingPotentialEventHandler),
            internal_state_label=label, tag="cell_bounding")
        taggers = [self.t_boundary, self.t_near, self.t_surplus, self.t_bounding]
        self.t_veto = None
        zero = (0,) * dim
        if any(not own_nearby(c, zero, self.sides, cfg["layers"]) for c in self.all_cell_ids):
            class StubEstimator(Estimator):
                def derivative_bound(self, lower_corner, upper_corner, direction, calculate_lower_bound=False):
                    return (1.0, -1.0) if calculate_lower_bound else (1.0,)

                def charge_correction_factor(self, active_charges, target_charges=None):
                    return 1.0
            estimator = StubEstimator(potential=InversePowerPotential(power=1.0, prefactor=1.0))
            self.t_veto = CellVetoTagger(create=[], trash=[], event_handler=LeafUnitCellVetoEventHandler(estimator=estimator),
                                         internal_state_label=label, tag="cell_veto")
            taggers.append(self.t_veto)
        with contextlib.redirect_stdout(io.StringIO()):
            for tagger in taggers:
                tagger.initialize_with_internal_states([self.occ])
                tagger.initialize()
        self.h_boundary = self.t_boundary.get_event_handlers()[0]
        self.h_veto = self.t_veto.get_event_handlers()[0] if self.t_veto is not None else None
        self.veto_cache = {}
        self.now = Time.from_float(0.0)

    # ---- helpers on the global state
    def truth(self):
        out = {}

        def visit(n):
            u = n.value
            out[tuple(u.identifier)] = (u.position, u.velocity)
            for c in n.children:
                visit(c)
        for r in self.sh.extract_global_state():
            visit(r)
        return out

    def relevant(self, cl):
        name = self.cfg["charge_filter"]
        if name is None:
            return True
        return self.charge_of[cl][name] != 0

    def path_to(self, root_cnode, leaf):
        node, path = root_cnode, [root_cnode]
        while tuple(node.value.identifier) != leaf:
            node = node.children[leaf[len(node.value.identifier)]]
            path.append(node)
        return path

    def copy_now(self):
        return self.Time(self.now.quotient, self.now.remainder)

    def activate(self, leaf, velocity):
        branch = self.sh.extract_from_global_state((leaf[0],))
        path = self.path_to(branch, leaf)
        v = list(velocity)
        for node in reversed(path):
            node.value.velocity = list(v)
            node.value.time_stamp = self.copy_now()
            v = [c * node.weight for c in v]
        self.sh.insert_into_global_state([branch])

    def rest(self, leaf, dt):
        """Own time-slicing of the active branch by dt, then the units are put to rest."""
        lengths = self.cfg["lengths"]
        branch = self.sh.extract_from_global_state((leaf[0],))
        for node in self.path_to(branch, leaf):
            u = node.value
            assert u.velocity is not None
            for d in range(self.dim):
                u.position[d] = own_wrap(u.position[d] + u.velocity[d] * dt, lengths[d])
            u.velocity = None
            u.time_stamp = None
        self.sh.insert_into_global_state([branch])

    # ---- the monitor
    def monitor(self, active_leaf):
        cfg, occ = self.cfg, self.occ
        lengths, sides, limit = cfg["lengths"], self.sides, cfg["limit"]
        truth = self.truth()
        active_cl = None if active_leaf is None else active_leaf[:self.cell_level]
        recorded = {}
        for cid in self.all_cell_ids:
            occupants = occ[self.byid[cid]]
            self.ev()
            if limit > 0 and len(occupants) > limit:
                self.bad("a cell lists more occupants than its limit", cell=cid, occupants=list(occupants), limit=limit)
            for identifier in occupants:
                recorded.setdefault(tuple(identifier), []).append(("occupant", cid))
        public_surplus = sorted(tuple(i) for i in occ.yield_surplus())
        stored = getattr(occ, "_surplus", None)
        if isinstance(stored, dict):
            private = []
            for cell, identifiers in stored.items():
                for identifier in identifiers:
                    private.append(tuple(identifier))
                    recorded.setdefault(tuple(identifier), []).append(("surplus", tuple(cell.identifier)))
            self.ev()
            if sorted(private) != public_surplus:
                self.bad("yield_surplus differs from the stored surplus lists", yielded=public_surplus, stored=sorted(private))
        else:
            for identifier in public_surplus:
                recorded.setdefault(identifier, []).append(("surplus", None))
        if public_surplus:
            self.cover("legs_with_surplus_units")
        for cl in self.cl_units:
            position = truth[cl][0]
            cell = own_cell(position, lengths, sides)
            records = recorded.pop(cl, [])
            self.ev()
            if cl == active_cl or not self.relevant(cl):
                if records:
                    self.bad("the active unit is recorded in an occupant / surplus list" if cl == active_cl else
                             "a unit that does not pass the charge filter is recorded", unit=cl, records=records,
                             position=list(position), charge=self.charge_of.get(cl))
                continue
            if len(records) != 1:
                self.bad("a relevant non-active unit is recorded %d times instead of exactly once" % len(records), unit=cl,
                         records=records, position=list(position), own_cell=cell, charge=self.charge_of.get(cl))
            kind, where = records[0]
            self.ev()
            if where is not None and where != cell:
                self.bad("a non-active unit is recorded in a cell that does not contain its position", unit=cl, record=records[0],
                         position=list(position), own_cell=cell)
            if where is not None:
                c = self.byid[where]
                self.ev()
                if any(not (c.cell_min[d] <= position[d] <= c.cell_max[d]) for d in range(self.dim)):
                    self.bad("the recorded cell's stored extent does not contain the unit's position", unit=cl, record=records[0],
                             position=list(position))
            if kind == "surplus":
                self.cover("surplus_records_checked")
            if any(position[d] in (self.byid[cell].cell_min[d], self.byid[cell].cell_max[d]) for d in range(self.dim)):
                self.cover("non_active_unit_exactly_on_a_cell_boundary")
            if self.charge_of.get(cl, {}).get("q", 1.0) < 0 and cfg["charge_filter"] is not None:
                self.cover("negative_charge_unit_checked_under_filter")
        self.ev()
        if recorded:
            self.bad("an identifier that is not a unit on the cell level is recorded", records=recorded)
        active_cells = [(tuple(c.identifier), tuple(i)) for c, i in occ.yield_active_cells()]
        self.ev()
        if active_cl is None or not self.relevant(active_cl):
            expected = []
        else:
            expected = [(own_cell(truth[active_cl][0], lengths, sides), active_cl)]
        if active_cells != expected:
            self.bad("yield_active_cells is not exactly (cell containing the active unit, active unit)", recorded=active_cells,
                     expected=expected, position=None if active_cl is None else list(truth[active_cl][0]),
                     charge=self.charge_of.get(active_cl))
        return truth, active_cl, active_cells

    # ---- C10: partition of the other relevant units
    def veto_cells(self, active_cell):
        key = tuple(active_cell.identifier)
        if key not in self.veto_cache:
            relative = list(self.h_veto._derivative_bounds.keys())
            self.veto_cache[key] = [self.cells.translate(active_cell, r) for r in relative]
        return self.veto_cache[key]

    def partition(self, truth, active_cl, active_cells, active_state):
        cfg = self.cfg
        lengths, sides, layers = cfg["lengths"], self.sides, cfg["layers"]
        if active_cl is None or not self.relevant(active_cl):
            return
        active_cell = own_cell(truth[active_cl][0], lengths, sides)
        others = {cl: own_cell(truth[cl][0], lengths, sides) for cl in self.cl_units if cl != active_cl and self.relevant(cl)}
        treated = {}
        for family, tagger in (("nearby", self.t_near), ("surplus", self.t_surplus), ("bounding", self.t_bounding)):
            treated[family] = []
            for in_state in tagger.yield_identifiers_send_event_time(active_state):
                self.ev()
                if len(in_state) < 2 or tuple(in_state[0]) != active_cl:
                    self.bad("an in-state of the %s family does not start with the active unit followed by targets" % family,
                             in_state=in_state, active=active_cl)
                treated[family] += [tuple(t) for t in in_state[1:]]
        if self.t_veto is not None:
            in_states = [tuple(tuple(i) for i in s) for s in self.t_veto.yield_identifiers_send_event_time(active_state)]
            self.ev()
            if in_states != [(active_cl,)]:
                self.bad("the in-state of the cell-veto family is not exactly the active unit", in_states=in_states, active=active_cl)
            target_cells = [tuple(c.identifier) for c in self.veto_cells(self.byid[active_cells[0][0]])]
            want = sorted(c for c in self.all_cell_ids if not own_nearby(c, active_cell, sides, layers))
            self.ev()
            if sorted(target_cells) != want:
                self.bad("the cells the cell-veto handler can sample are not exactly the non-nearby cells of the active cell (each once)",
                         active_cell=active_cell, sampled=sorted(target_cells)[:12], expected=want[:12])
            treated["veto"] = [tuple(i) for c in target_cells for i in self.occ[self.byid[c]]]
            leaf_velocity = list(self.leaf_velocity)
            if sum(1 for v in leaf_velocity if v != 0.0) == 1 and max(leaf_velocity) > 0.0:
                branch = self.sh.extract_from_global_state(active_cl)
                _, (target_cell,) = self.h_veto.send_event_time([branch])
                self.ev()
                if own_nearby(tuple(target_cell.identifier), active_cell, sides, layers):
                    self.bad("the real cell-veto handler sampled a nearby target cell", target=tuple(target_cell.identifier),
                             active_cell=active_cell)
                self.cover("real_cell_veto_samples")
        for name, families in (("nearby+surplus+cell-bounding", ("nearby", "surplus", "bounding")),
                               ("nearby+surplus+cell-veto", ("nearby", "surplus", "veto"))):
            if "veto" in families and self.t_veto is None:
                continue
            count = {}
            for family in families:
                for target in treated[family]:
                    count.setdefault(target, []).append(family)
            for target, fams in count.items():
                self.ev()
                if target not in others:
                    self.bad("a cell-based event family targets something that is not another relevant unit", target=target,
                             families=fams, active=active_cl, partition=name)
            for cl, cell in others.items():
                fams = count.get(cl, [])
                near = own_nearby(cell, active_cell, sides, layers)
                self.ev()
                if len(fams) == 0:
                    self.bad("a relevant unit is MISSED by all cell-based event families (%s)" % name, unit=cl, unit_cell=cell,
                             active=active_cl, active_cell=active_cell, nearby=near, position=list(truth[cl][0]))
                if len(fams) > 1:
                    self.bad("a relevant unit is treated more than once (%s)" % name, unit=cl, families=fams, unit_cell=cell,
                             active=active_cl, active_cell=active_cell)
                if (fams[0] == "nearby" and not near) or (fams[0] in ("bounding", "veto") and near):
                    self.bad("a unit is treated by the %s family but it is %s the active cell" % (fams[0], "nearby" if near else "not nearby"),
                             unit=cl, unit_cell=cell, active_cell=active_cell, partition=name)
                if cell == active_cell:
                    self.cover("other_unit_in_the_active_cell_treated")

    # ---- the event loop
    def choose_new_active(self, truth, old_leaf):
        rng, lengths, sides = self.rng, self.cfg["lengths"], self.sides
        candidates = [leaf for leaf in self.leaves if leaf != old_leaf]
        if rng.random() < 0.4:
            return rng.choice(candidates)
        old_cl = old_leaf[:self.cell_level]
        old_cell = own_cell(truth[old_cl][0], lengths, sides)
        surplus = set(tuple(i) for i in self.occ.yield_surplus())
        groups = {"other_cell": [], "same_cell": [], "surplus": [], "sibling": []}
        for leaf in candidates:
            cl = leaf[:self.cell_level]
            if cl == old_cl or (leaf[0] == old_leaf[0] and len(leaf) > 1):
                groups["sibling"].append(leaf)
                continue
            cell = own_cell(truth[cl][0], lengths, sides)
            groups["same_cell" if cell == old_cell else "other_cell"].append(leaf)
            if cl in surplus:
                groups["surplus"].append(leaf)
        names = [n for n in sorted(groups) if groups[n]]
        weights = {"other_cell": 4, "same_cell": 2, "surplus": 2, "sibling": 1}
        name = rng.choices(names, weights=[weights[n] for n in names])[0]
        return rng.choice(groups[name])

    def run(self, legs):
        cfg, rng = self.cfg, self.rng
        lengths, sides, limit = cfg["lengths"], self.sides, cfg["limit"]
        try:
            self.build()
            self.leg = -1
            self.monitor(None)                     # after initialize(): nobody is active
            active_leaf = rng.choice(self.leaves)
            self.leaf_velocity = make_velocity(rng, self.dim)
            self.activate(active_leaf, self.leaf_velocity)
            for leg in range(legs):
                self.leg = leg
                active_state = self.sh.extract_active_global_state()
                assert len(active_state) == 1
                self.occ.update(active_state)
                truth, active_cl, active_cells = self.monitor(active_leaf)
                self.partition(truth, active_cl, active_cells, active_state)
                position, velocity = list(truth[active_cl][0]), list(truth[active_cl][1])
                in_states = [tuple(tuple(i) for i in s) for s in self.t_boundary.yield_identifiers_send_event_time(active_state)]
                self.ev()
                is_relevant = self.relevant(active_cl)
                if in_states != ([(active_cl,)] if is_relevant else []):
                    self.bad("the in-states of the CellBoundaryTagger are not exactly the relevant active unit", in_states=in_states,
                             active=active_cl, relevant=is_relevant)
                time_to_boundary = None
                own = own_times_to_boundary(position, velocity, lengths, sides)
                own_time = min(t for t, _ in own.values())
                cell_before = own_cell(position, lengths, sides)
                if is_relevant:
                    event_time = self.h_boundary.send_event_time([self.sh.extract_from_global_state(active_cl)])
                    time_to_boundary = event_time - self.now
                    self.ev()
                    if not (abs(time_to_boundary - own_time) <= TOL):
                        self.bad("the candidate cell-boundary time is not the time at which the active unit reaches the boundary of its cell",
                                 unit=active_cl, position=position, velocity=velocity, cell=cell_before, own_time=own_time,
                                 handler_time=time_to_boundary)
                if is_relevant and rng.random() < 0.5:
                    # ---- cell-boundary leg (real event handler)
                    out_state = self.h_boundary.send_out_state()
                    self.sh.insert_into_global_state(out_state)
                    self.now = self.Time(event_time.quotient, event_time.remainder)
                    new_position = list(self.truth()[active_cl][0])
                    cell_after = own_cell(new_position, lengths, sides)
                    tied = [d for d, (t, _) in own.items() if t <= own_time + 1.0e-12]
                    ok = True
                    crossed = []
                    for d in range(self.dim):
                        step = (cell_after[d] - cell_before[d]) % sides[d]
                        if d in tied:
                            want = own[d][1] % sides[d]
                            if step == want:
                                crossed.append(d)
                            elif step != 0 or len(tied) == 1:
                                ok = False
                        elif step != 0:
                            ok = False
                    self.ev()
                    if not ok or not crossed:
                        self.bad("after the cell-boundary event the active unit is not in the neighbouring cell", unit=active_cl,
                                 position_before=position, velocity=velocity, cell_before=cell_before, position_after=new_position,
                                 cell_after=cell_after)
                    self.ev()
                    predicted = [own_wrap(position[d] + velocity[d] * own_time, lengths[d]) for d in range(self.dim)]
                    if any(periodic_distance(predicted[d], new_position[d], lengths[d]) > TOL for d in range(self.dim)):
                        self.bad("the position after the cell-boundary event is not the position reached at the event time", unit=active_cl,
                                 position_before=position, velocity=velocity, predicted=predicted, position_after=new_position)
                    for d in crossed:
                        wrapped = (own[d][1] > 0 and cell_before[d] == sides[d] - 1) or (own[d][1] < 0 and cell_before[d] == 0)
                        self.cover("crossing_dir%d_%s%s" % (d, "plus" if own[d][1] > 0 else "minus", "_periodic" if wrapped else ""))
                    if sum(1 for v in velocity if v != 0.0) > 1:
                        self.cover("crossing_with_general_velocity")
                    self.history.append({"leg": leg, "type": "boundary", "unit": active_cl, "from": cell_before, "to": cell_after,
                                         "velocity": velocity})
                else:
                    # ---- lifting leg
                    if time_to_boundary is None:
                        dt = rng.random() * 0.4 * min(lengths)
                    elif not (time_to_boundary >= 1.0e-9):
                        dt = 0.0
                    else:
                        r = rng.random()
                        dt = time_to_boundary * (0.0 if r < 0.1 else 0.999 if r < 0.25 else min(rng.random(), 0.999))
                    new_leaf = self.choose_new_active(truth, active_leaf)
                    new_cl = new_leaf[:self.cell_level]
                    old_cell_full = limit > 0 and len(self.occ[self.byid[cell_before]]) >= limit
                    self.rest(active_leaf, dt)
                    self.now = self.now + dt
                    after = self.truth()
                    if is_relevant:
                        cell_at_lifting = own_cell(after[active_cl][0], lengths, sides)
                        self.ev()
                        if active_cells and cell_at_lifting != active_cells[0][0]:
                            self.bad("the active unit left its recorded cell without a cell-boundary event", unit=active_cl,
                                     recorded_cell=active_cells[0][0], position=list(after[active_cl][0]), cell=cell_at_lifting,
                                     velocity=velocity, time=dt)
                    new_cell = own_cell(after[new_cl][0], lengths, sides)
                    if new_cl != active_cl and is_relevant:
                        if new_cell != cell_before:
                            self.cover("lifting_to_another_cell")
                            if old_cell_full:
                                self.cover("lifting_to_another_cell_while_old_cell_full")
                        else:
                            self.cover("lifting_within_the_cell")
                    if new_cl == active_cl:
                        self.cover("lifting_to_a_sibling_same_cell_level_unit")
                    if rng.random() < 0.4:
                        self.leaf_velocity = make_velocity(rng, self.dim)
                    self.activate(new_leaf, self.leaf_velocity)
                    self.history.append({"leg": leg, "type": "lifting", "from_unit": active_leaf, "to_unit": new_leaf, "dt": dt,
                                         "old_cell": cell_before, "new_cell": new_cell, "old_cell_full": old_cell_full})
                    active_leaf = new_leaf
        except Stop:
            pass
        except Exception as e:            # an exception of the code under test on a legal history is a violation, too
            import traceback
            tb = traceback.extract_tb(e.__traceback__)
            where = ["%s:%d %s" % (os.path.basename(f.filename), f.lineno, f.name) for f in tb[-3:]]
            self.stats["violations"].append({"what": "the event loop raised %s: %s" % (type(e).__name__, str(e)[:120]), "where": where,
                                             "case": self.case_number, "leg": self.leg, "config": self.cfg,
                                             "last_legs": self.history[-5:]})
        finally:
            self.setting.reset() if hasattr(self, "setting") else None


def run(level, seed):
    rng = random.Random(seed)
    random.seed(seed)                              # the repository's own draws (cell-veto sampling) - not the harness's choices
    combos = [(box, limit, mode, filtered, declared) for box in BOXES for limit in LIMITS for mode in MODES
              for filtered in (False, True) for declared in ("hypercubic", "hypercuboid")]
    rng.shuffle(combos)
    cases, legs = (480, 60) if level <= 1 else (5000, 120)
    stats = {"evaluations": 0, "violations": []}
    coverage = {}
    samples = []
    done = 0
    for number in range(cases):
        cfg = make_config(rng, combos[number % len(combos)], level)
        case = Case(cfg, random.Random(rng.getrandbits(64)), stats, coverage, number)
        case.run(legs)
        done += 1
        if len(samples) < 3 and number % 7 == 0:
            samples.append(dict(cfg, legs=legs, last_legs=case.history[-2:]))
        if len(stats["violations"]) >= 8:
            break
    return {"evaluations": stats["evaluations"], "cases": done, "violations": stats["violations"][:8], "samples": samples,
            "coverage": dict(sorted(coverage.items())),
            "rule": "Each case is one seeded event history of %d legs (cell-boundary legs from the real handler, lifting legs to another "
                    "leaf unit) on a real SingleActiveCellOccupancy + CuboidPeriodicCells + TreeStateHandler; the (box, limit, tree mode, "
                    "charge filter, setting module) combinations are cycled in a seed-shuffled order, grid / layers / units / positions / "
                    "charges / velocities are drawn from random.Random(seed). Evaluations count individual clause checks (per unit, per "
                    "cell, per leg) of the inline monitor." % legs}


if __name__ == "__main__":
    result = run(int(sys.argv[1]), int(sys.argv[2]) if len(sys.argv) > 2 else 0)
    print("BOUNDED-RESULT " + json.dumps(result, default=str))
