"""Module-level hooks (importable, so that dill pickles them by reference and a resumed mediator logs into the same place)."""
import hashlib
import random

LOG = {"cur": None, "n": 0, "limit": 0}
DUMPS = []
ORIG = {}
DEPTH = [0]
MAX_DUMPS = [12]


def flat_hash(roots):
    out = []

    def visit(n):
        u = n.value
        out.append((tuple(u.identifier), tuple(u.position), None if u.velocity is None else tuple(u.velocity),
                    None if u.time_stamp is None else (u.time_stamp.quotient, u.time_stamp.remainder)))
        for c in n.children:
            visit(c)
    for r in roots:
        visit(r)
    return hashlib.sha256(repr(out).encode()).hexdigest()[:16]


def insert(self, st):
    from jellyfysh.base.exceptions import EndOfRun
    DEPTH[0] += 1
    try:
        r = ORIG["insert"](self, st)
    finally:
        DEPTH[0] -= 1
    if DEPTH[0] == 0:
        LOG["n"] += 1
        LOG["cur"].append(flat_hash(self.extract_global_state()))
        if LOG["n"] >= LOG["limit"]:
            raise EndOfRun
    return r


DUMP_EVENTS = []     # indices (into LOG["cur"]) after which a dump was written


def write(self, mediator):
    """The REAL DumpingOutputHandler.write runs (whatever it does to the file, the random stream, ...); the dump is then
    read back from the file it wrote - exactly what resume.main() will load."""
    import contextlib
    import os
    with open(os.devnull, "w") as dn, contextlib.redirect_stdout(dn):
        ORIG["write"](self, mediator)
    DUMP_EVENTS.append(len(LOG["cur"]))
    if len(DUMPS) < MAX_DUMPS[0]:
        with open(self._output_filename, "rb") as f:
            DUMPS.append((len(LOG["cur"]), f.read()))
