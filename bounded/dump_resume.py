"""C19 - BOUNDED stand-in (dill's treatment of an arbitrary object graph cannot be put under contract).

(a) scheduler pickle pairs: seeded protocol-respecting histories of push / trash / get on HeapScheduler and ListScheduler;
    at every step the scheduler is cloned with dill and original and clone must return the same handler and the same
    (quotient, remainder) for the rest of the history (including lazily deleted entries' validity).
(b) dump / resume: a shipped configuration with dumping is run for a stated number of commits; every dump written is
    loaded the way resume.main() does (settings, uuid, random state) and run on; the sequence of committed global
    states must equal, bit for bit, the one of the original run past that point.  The run with dumping is also compared
    with the same run without the dumping tagger (apart from the dumping events themselves)."""
import contextlib
import hashlib
import io
import json
import os
import random
import sys
import tempfile

REPO = os.environ.get("VERIF_REPO", "/repo")


class H(object):
    """a picklable stand-in for an event handler"""
    def __init__(self, name):
        self.name = name


def scheduler_histories(seed, n_hist, steps):
    import dill
    from jellyfysh.base.time import Time
    from jellyfysh.scheduler.heap_scheduler.heap_scheduler import HeapScheduler
    from jellyfysh.scheduler.list_scheduler import ListScheduler
    from jellyfysh.base.exceptions import SchedulerError
    rng = random.Random(seed)
    evaluations, violations = 0, []
    for cls in (HeapScheduler, ListScheduler):
        for h in range(n_hist):
            sched = cls()
            handlers = [H("h%d" % i) for i in range(rng.choice([2, 3, 5, 9, 70]))]
            live = {}
            ops = []
            for step in range(steps):
                r = rng.random()
                free = [x for x in handlers if x.name not in live]
                if r < 0.5 and free:
                    hd = rng.choice(free)
                    t = Time(float(rng.choice([0, 1, 1, 2, 7, 2 ** 40])), rng.choice([0.0, 0.25, 0.5, 0.5, 0.75, 0.999]))
                    sched.push_event(t, hd)
                    live[hd.name] = (t.quotient, t.remainder)
                    ops.append(("push", hd.name, t.quotient, t.remainder))
                elif r < 0.8 and live:
                    name = rng.choice(sorted(live))
                    sched.trash_event([x for x in handlers if x.name == name][0])
                    del live[name]
                    ops.append(("trash", name))
                # clone here and compare the future of both
                evaluations += 1
                try:
                    clone = dill.loads(dill.dumps(sched))
                except Exception as e:
                    violations.append({"what": "scheduler cannot be pickled: %s" % type(e).__name__, "class": cls.__name__, "ops": ops[-8:]})
                    break
                a, b = [], []
                for s, out in ((dill.loads(dill.dumps(sched)), a), (clone, b)):
                    pass
                # drain both copies (not the original, which continues): same order of (handler, time)
                c1, c2 = dill.loads(dill.dumps(sched)), clone
                want = sorted(live.items(), key=lambda kv: kv[1])
                for s, out in ((c1, a), (c2, b)):
                    for _ in range(len(live)):
                        try:
                            hd = s.get_succeeding_event()
                        except SchedulerError:
                            out.append("empty")
                            break
                        out.append(hd.name)
                        s.trash_event(hd)
                times = [live[n] for n in b if n in live]
                if a != b or len(b) != len(live) or times != sorted(times):
                    violations.append({"what": "pickled scheduler answers differently from the original / not in time order / "
                                               "returns a trashed event", "class": cls.__name__, "got": b[:6], "live": want[:6], "ops": ops[-8:]})
                    break
            if len(violations) >= 3:
                break
    return evaluations, violations


def flat_hash(roots):
    out = []

    def visit(n):
        u = n.value
        out.append((tuple(u.identifier), tuple(u.position), None if u.velocity is None else tuple(u.velocity),
                    None if u.time_stamp is None else (u.time_stamp.quotient, u.time_stamp.remainder)))
        for c in n.children:
            visit(c)
    for r in roots:
        visit(r)
    return hashlib.sha256(repr(out).encode()).hexdigest()[:16]


def dump_resume(ini_rel, nmax, seed, max_dumps, interval=3.7, overrides=(), compare_without_dumping=False):
    import dill
    from configparser import ConfigParser
    from unittest import mock
    import jellyfysh
    import jellyfysh.run as run
    import jellyfysh.setting as setting
    import jellyfysh.base.uuid as uuid
    from jellyfysh.base.exceptions import EndOfRun
    from jellyfysh.state_handler.tree_state_handler import TreeStateHandler
    from jellyfysh.input_output_handler.output_handler.dumping_output_handler import DumpingOutputHandler
    base = os.path.dirname(jellyfysh.__file__)
    scratch = tempfile.mkdtemp(prefix="verif-dump-")

    def load_cfg(drop_dumping=False):
        cfg = ConfigParser()
        cfg.read(os.path.join(base, "config_files", ini_rel))
        for sec in cfg.sections():
            if cfg.has_option(sec, "filename"):
                if "OutputHandler" in sec:
                    cfg.set(sec, "filename", os.path.join(scratch, "out_" + sec + ".dat"))
                else:
                    cfg.set(sec, "filename", os.path.join(base, cfg.get(sec, "filename")))
        if not cfg.has_section("Dumping"):
            # harness-generated: add a dumping tagger to a configuration that has none (cell systems, C potentials, heap scheduler)
            cfg.set("TagActivator", "taggers", cfg.get("TagActivator", "taggers").rstrip() + ",\n    dumping (no_in_state_tagger)")
            cfg.add_section("Dumping")
            cfg.set("Dumping", "create", "dumping")
            cfg.set("Dumping", "trash", "dumping")
            cfg.set("Dumping", "event_handler", "fixed_interval_dumping_event_handler")
            cfg.add_section("FixedIntervalDumpingEventHandler")
            cfg.set("FixedIntervalDumpingEventHandler", "output_handler", "dumping_output_handler")
            cfg.set("StartOfRun", "create", cfg.get("StartOfRun", "create") + ", dumping")
            cfg.set("EndOfRun", "trash", cfg.get("EndOfRun", "trash") + ", dumping")
            ioh = [s_ for s_ in cfg.sections() if cfg.has_option(s_, "output_handlers")][0]
            cfg.set(ioh, "output_handlers", cfg.get(ioh, "output_handlers") + ", dumping_output_handler")
            cfg.add_section("DumpingOutputHandler")
            cfg.set("DumpingOutputHandler", "filename", os.path.join(scratch, "dump.dat"))
        # dump often enough that several dumps fall inside the bounded run
        cfg.set("FixedIntervalDumpingEventHandler", "dumping_interval", str(interval))
        for sec, opt, val in overrides:       # harness-generated variant (e.g. non-default potential parameters)
            if not cfg.has_section(sec):
                cfg.add_section(sec)
            cfg.set(sec, opt, val)
        if drop_dumping:
            # the same run WITHOUT dumping: the dumping event handler never fires within the run
            cfg.set("FixedIntervalDumpingEventHandler", "dumping_interval", "1.0e300")
        return cfg
    from bounded import _hooks
    log, dumps = _hooks.LOG, _hooks.DUMPS
    del dumps[:]
    log["limit"] = nmax
    _hooks.ORIG["insert"] = TreeStateHandler.insert_into_global_state
    _hooks.ORIG["write"] = DumpingOutputHandler.write
    del _hooks.DUMP_EVENTS[:]
    _hooks.MAX_DUMPS[0] = max_dumps * 4
    insert, write = _hooks.insert, _hooks.write
    violations, evaluations = [], 0
    with mock.patch.object(TreeStateHandler, "insert_into_global_state", insert), \
            mock.patch.object(DumpingOutputHandler, "write", write):
        random.seed(seed)
        log["cur"], log["n"] = [], 0
        original = log["cur"]
        sys.argv[1:] = [os.path.join(base, "config_files", ini_rel)]
        with mock.patch("jellyfysh.run.read_config", return_value=load_cfg()), open(os.devnull, "w") as dn, \
                contextlib.redirect_stdout(dn):
            try:
                run.main()
            except EndOfRun:
                pass
        import logging
        logging.getLogger("").handlers.clear()
        if compare_without_dumping:
            # second clause of the property: apart from the dumping events themselves the run with dumps commits exactly
            # the events of the same seeded run without dumping.  (A dumping event commits nothing by itself: the
            # sequence of DISTINCT consecutive global states must agree.)
            import jellyfysh.setting as setting_
            from jellyfysh.activator.tagger.factor_type_maps import FactorTypeMaps as _FTM
            dump_positions = list(_hooks.DUMP_EVENTS)
            setting_.reset()
            _FTM._instance = None
            random.seed(seed)
            log["cur"], log["n"], log["limit"] = [], 0, nmax
            plain = log["cur"]
            with mock.patch("jellyfysh.run.read_config", return_value=load_cfg(drop_dumping=True)), \
                    open(os.devnull, "w") as dn, contextlib.redirect_stdout(dn):
                try:
                    run.main()
                except EndOfRun:
                    pass
            logging.getLogger("").handlers.clear()

            def distinct(seq):
                out = []
                for h in seq:
                    if not out or out[-1] != h:
                        out.append(h)
                return out
            a, b = distinct(original), distinct(plain)
            n_cmp = min(len(a), len(b))
            evaluations += n_cmp
            if dump_positions and a[:n_cmp] != b[:n_cmp]:
                first = next(i for i in range(n_cmp) if a[i] != b[i])
                violations.append({"what": "the run with dumping commits other events than the same run without dumping",
                                   "config": ini_rel, "first_difference_at_distinct_state": first,
                                   "dumps_before": sum(1 for d_ in dump_positions if d_ <= first)})
            log["cur"] = original
        picks = dumps[:: max(1, len(dumps) // max_dumps)][:max_dumps]
        for at, blob in picks:
            mediator, dumped_setting, dumped_uuid, dumped_random_state = dill.loads(blob)
            mediator.update_logging()
            setting.__dict__.update(dumped_setting.__dict__)
            uuid.__dict__.update(dumped_uuid.__dict__)
            random.setstate(dumped_random_state)
            log["cur"], log["n"], log["limit"] = [], 0, len(original) - at
            with open(os.devnull, "w") as dn, contextlib.redirect_stdout(dn):
                try:
                    mediator.run()
                except EndOfRun:
                    pass
            evaluations += len(log["cur"])
            if log["cur"] != original[at:at + len(log["cur"])] or len(log["cur"]) != len(original) - at:
                first = next((i for i, (x, y) in enumerate(zip(log["cur"], original[at:])) if x != y), None)
                violations.append({"what": "resumed run differs from the uninterrupted run", "config": ini_rel, "dump_after_commit": at,
                                   "first_difference_at_commit": None if first is None else at + first,
                                   "resumed_commits": len(log["cur"]), "expected": len(original) - at})
    import shutil
    shutil.rmtree(scratch, ignore_errors=True)
    return evaluations, violations, {"config": ini_rel, "commits": len(original), "dumps_taken": len(dumps), "dumps_resumed": len(picks)}


def main(level, seed):
    sys.path.insert(0, REPO)
    from monitors.harness import build_c_extensions, preload_extensions
    preload_extensions(build_c_extensions(REPO))
    ev1, v1 = scheduler_histories(seed, 6 * level, 40)
    ev2, v2, info = dump_resume("2018_JCP_149_064113/coulomb_atoms/power_bounded_dump.ini", 1500 * level, seed, 3,
                                compare_without_dumping=True)
    import jellyfysh.setting as setting0
    from jellyfysh.activator.tagger.factor_type_maps import FactorTypeMaps as FTM0
    setting0.reset()
    FTM0._instance = None
    # the same configuration with NON-DEFAULT Ewald parameters (restored from the dump, not rebuilt with defaults)
    e0, v0, i0 = dump_resume("2018_JCP_149_064113/coulomb_atoms/power_bounded_dump.ini", 800 * level, seed, 3,
                             overrides=(("MergedImageCoulombPotential", "fourier_cutoff", "1"),
                                        ("MergedImageCoulombPotential", "alpha", "2.9")))
    i0["config"] += " [fourier_cutoff=1, alpha=2.9]"
    ev2 += e0
    v2 = v2 + v0
    import jellyfysh.setting as setting
    from jellyfysh.activator.tagger.factor_type_maps import FactorTypeMaps
    infos = [info, i0]
    for ini, interval in (("2018_JCP_149_064113/coulomb_atoms/cell_veto.ini", 0.31), ("2018_JCP_149_064113/dipoles/dipole_motion.ini", 0.53)):
        setting.reset()
        FactorTypeMaps._instance = None
        e, v, i = dump_resume(ini, 800 * level, seed, 3, interval)
        ev2 += e
        v2 += v
        infos.append(i)
    return {"evaluations": ev1 + ev2, "scheduler_clones": ev1, "resumed_commits": ev2, "violations": v1 + v2, "samples": infos}


if __name__ == "__main__":
    print("BOUNDED-RESULT " + json.dumps(main(int(sys.argv[1]), int(sys.argv[2])), default=str))
