#!/usr/bin/env python3
"""Fill seeded/<id>/meta.json (detected_by / confirmed / ran) from a log of selftest/run_seeded.py.
   usage: selftest/update_meta.py <log file>"""
import json
import os
import re
import sys

ROOT = os.path.dirname(os.path.dirname(os.path.abspath(__file__)))
cur = None
res = {}
for line in open(sys.argv[1]):
    m = re.match(r"^(C\d\d-\d+)\s+demo clean=(\d+) patched=(\d+).*checks=\[(.*)\]\s+(DETECTED|MISSED)", line)
    if m:
        cur = m.group(1)
        res[cur] = {"clean": m.group(2), "patched": m.group(3), "checks": m.group(4), "verdict": m.group(5), "by": []}
        continue
    m = re.search(r"obligation=(\S.*)$", line)
    if m and cur and "VIOLATION" in line:
        res[cur]["by"].append(m.group(1).strip()[:160])
for sid, r in sorted(res.items()):
    p = os.path.join(ROOT, "seeded", sid, "meta.json")
    if not os.path.exists(p):
        continue
    meta = json.load(open(p))
    meta["confirmed"] = ("demo.py exits %s on the clean tree and %s with patch.diff applied (selftest/run_seeded.py on a scratch copy "
                         "of /repo); the sub-agent that wrote the change reports the full suite at 728 passed / 3 skipped with it"
                         % (r["clean"], r["patched"]))
    meta["ran"] = "selftest/run_seeded.py %s -> checks [%s]" % (sid, r["checks"])
    if r["verdict"] == "DETECTED":
        meta["detected_by"] = "; ".join(sorted(set(r["by"]))[:3]) or "exit 1 of the listed check"
    else:
        meta["detected_by"] = "MISSED by the listed check(s) at the time of the run"
    json.dump(meta, open(p, "w"), indent=1)
print("%d seeded changes: %d detected" % (len(res), sum(1 for r in res.values() if r["verdict"] == "DETECTED")))
for sid, r in sorted(res.items()):
    if r["verdict"] != "DETECTED":
        print("  missed:", sid)
