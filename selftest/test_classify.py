#!/verif/.venv/bin/python
"""Unit test of the vacuity classification (NOT a registered check).
A reachability query for a PERMITTED exception (may_raise; obligation kind "cover-optional") that the solver refutes
must not make the unit vacuous - the raise path is then simply unreachable in the model - whereas a refuted
cover:return / canary / required raise cover still does.   selftest/test_classify.py"""
import os
import sys

ROOT = os.path.dirname(os.path.dirname(os.path.abspath(__file__)))
sys.path.insert(0, ROOT)
import z3  # noqa
from pyvc.core import Obligation  # noqa
from pyvc.runner import UnitResult, classify  # noqa


def ob(name, kind, expect_fail, result, path=0):
    o = Obligation(name, [], z3.BoolVal(False), kind, path, expect_fail)
    o.result = result
    return o


def run(obs):
    r = UnitResult("t")
    r.obligations = obs
    classify(r)
    return r


base = [ob("f/ensures[0]", "ensures", False, "unsat"), ob("f/cover:return", "cover", True, "sat")]
cases = [
    ("permitted raise refuted on every path", base + [ob("f/cover:raise-ValueError", "cover-optional", True, "unsat", 1),
                                                      ob("f/cover:raise-ValueError", "cover-optional", True, "unsat", 2)], "proved"),
    ("permitted raise undecided", base + [ob("f/cover:raise-ValueError", "cover-optional", True, "unknown", 1)], "proved"),
    ("permitted raise reachable", base + [ob("f/cover:raise-ValueError", "cover-optional", True, "sat", 1)], "proved"),
    ("required raise cover refuted", base + [ob("f/cover:raise-ValueError", "cover", True, "unsat", 1)], "vacuous"),
    ("return cover refuted", [base[0], ob("f/cover:return", "cover", True, "unsat")], "vacuous"),
    ("canary refuted", base + [ob("f/canary:result == 0", "canary", True, "unsat")], "vacuous"),
    ("no obligations", [ob("f/cover:return", "cover", True, "sat")], "vacuous"),
]
bad = 0
for title, obs, want in cases:
    r = run(obs)
    ok = r.status == want
    bad += not ok
    print("%-45s status=%-9s expected=%-9s %s  %s" % (title, r.status, want, "OK" if ok else "MISMATCH", "; ".join(r.notes)))
sys.exit(1 if bad else 0)
