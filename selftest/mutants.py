"""Hand-written mutants: textual replacement in one file; expect = exit code of the affected check (1 = must be
reported as a violation, 0 = behaviour-preserving edit that must stay green)."""
MUTANTS = [
    # ---- C14
    dict(name="C14-lt-to-le", prop="C14", file="jellyfysh/base/time.py", only="__lt__|__ge__|__gt__|__le__",
         old="and self._remainder < other.remainder)", new="and self._remainder <= other.remainder)"),
    dict(name="C14-drop-add-quotient", prop="C14", file="jellyfysh/base/time.py", only="__add__",
         old="return Time(self._quotient + add_quotient, new_remainder)", new="return Time(self._quotient, new_remainder)"),
    dict(name="C14-divmod-swapped", prop="C14", file="jellyfysh/base/time.py", only="__add__",
         old="add_quotient, new_remainder = divmod(", new="new_remainder, add_quotient = divmod("),
    dict(name="C14-sub-sign", prop="C14", file="jellyfysh/base/time.py", only="__sub__",
         old="+ self._remainder - other._remainder", new="- self._remainder + other._remainder"),
    dict(name="C14-from-float-no-inf-guard", prop="C14", file="jellyfysh/base/time.py", only="from_float",
         old="return Time(*divmod(time, 1.0)) if not isinf(time) else Time(time, time)",
         new="return Time(*divmod(time, 1.0))"),
    # ---- C15
    dict(name="C15-drop-shift", prop="C15", file="jellyfysh/setting/hypercubic_setting.py", only="Hypercubic.*separation",
         old="return (separation_entry + system_length_over_two) % system_length - system_length_over_two",
         new="return separation_entry % system_length - system_length_over_two"),
    dict(name="C15-wrong-index", prop="C15", file="jellyfysh/setting/hypercuboid_setting.py", only="Hypercuboid.*separation",
         old="- system_lengths_over_two[index])", new="- system_lengths_over_two[0])"),
    dict(name="C15-minus-length", prop="C15", file="jellyfysh/setting/hypercubic_setting.py", only="Hypercubic.*separation",
         old="% system_length - system_length_over_two", new="% system_length - system_length"),
    # ---- C05
    dict(name="C05-no-accumulation", prop="C05", file="jellyfysh/lifting/inside_first_lifting.py", only="Inside",
         old="summed_lifting_rate += lifting_rate", new="summed_lifting_rate = lifting_rate"),
    dict(name="C05-drop-elif", prop="C05", file="jellyfysh/lifting/lifting.py", only="insert",
         old="elif not self._active_recorded:", new="else:"),
    dict(name="C05-outside-not-mirrored", prop="C05", file="jellyfysh/lifting/outside_first_lifting.py", only="Outside",
         old="self._random_position = sum(self._negative_lifting_rates) - self._random_position", new="pass"),
    dict(name="C05-previous-identifier", prop="C05", file="jellyfysh/lifting/ratio_lifting.py", only="Ratio",
         old="return self._associated_identifiers[index]", new="return self._associated_identifiers[index - 1]"),
    dict(name="C05-store-zero-rates(reverts-fix)", prop="C05", file="jellyfysh/lifting/lifting.py", only="insert",
         old="if lifting_rate < 0.0:", new="if lifting_rate <= 0.0:"),
    dict(name="C05-strict-walk-stays-green", prop="C05", file="jellyfysh/lifting/inside_first_lifting.py", only="Inside",
         old="if self._random_position <= summed_lifting_rate:", new="if self._random_position < summed_lifting_rate:",
         expect=0),
    # ---- C06 (heap.c)
    dict(name="C06-parent-minus-one", prop="C06", file="jellyfysh/scheduler/heap_scheduler/heap.c", only="insert",
         old="        parent_position = position >> 1u;\n    }", new="        parent_position = position - 1;\n    }"),
    dict(name="C06-size-check-off-by-one", prop="C06", file="jellyfysh/scheduler/heap_scheduler/heap.c", only="heap.c",
         old="if (heap->length + 1 > heap->size) {", new="if (heap->length > heap->size) {"),
    dict(name="C06-compare-remainder-first", prop="C06", file="jellyfysh/scheduler/heap_scheduler/heap.c", only="insert",
         old="""    while (time_quotient < heap->heap_entries[parent_position].time_quotient ||
              (time_quotient == heap->heap_entries[parent_position].time_quotient
               && time_remainder < heap->heap_entries[parent_position].time_remainder)) {""",
         new="""    while (time_remainder < heap->heap_entries[parent_position].time_remainder ||
              (time_remainder == heap->heap_entries[parent_position].time_remainder
               && time_quotient < heap->heap_entries[parent_position].time_quotient)) {"""),
    dict(name="C06-insert-forgets-counter", prop="C06", file="jellyfysh/scheduler/heap_scheduler/heap.c", only="insert",
         old="    heap->heap_entries[position].counter = counter;\n", new="    heap->heap_entries[position].counter = 0;\n"),
    dict(name="C06-second-child-vs-cache", prop="C06", file="jellyfysh/scheduler/heap_scheduler/heap.c", only="bubble_down",
         old="""               (heap->heap_entries[child_position + 1].time_quotient
                   < heap->heap_entries[compare_position].time_quotient ||""",
         new="""               (heap->heap_entries[child_position + 1].time_quotient
                   < heap->heap_entries[heap->length].time_quotient ||"""),
    dict(name="C06-child-plus-one", prop="C06", file="jellyfysh/scheduler/heap_scheduler/heap.c", only="bubble_down",
         old="child_position = position << 1u;", new="child_position = position + 1;"),
    dict(name="C06-root-forgets-decrement", prop="C06", file="jellyfysh/scheduler/heap_scheduler/heap.c", only="root",
         old="heap->heap_entries[1] = heap->heap_entries[--(heap->length)];", new="heap->heap_entries[1] = heap->heap_entries[heap->length - 1];"),
    dict(name="C06-second-child-le-stays-green", prop="C06", file="jellyfysh/scheduler/heap_scheduler/heap.c", only="bubble_down",
         old="if (child_position + 1 < heap->length &&", new="if (child_position + 1 <= heap->length &&", expect=0),
    dict(name="C06-delete-skips-moved-entry", prop="C06", file="jellyfysh/scheduler/heap_scheduler/heap.c", only="delete_events",
         old="""            heap->heap_entries[current_index] = heap->heap_entries[--(heap->length)];
            continue;""", new="""            heap->heap_entries[current_index] = heap->heap_entries[--(heap->length)];"""),
    dict(name="C06-heapify-starts-too-low", prop="C06", file="jellyfysh/scheduler/heap_scheduler/heap.c", only="delete_events",
         old="for (uint index = heap->length / 2; index >= 1; index--) {", new="for (uint index = heap->length / 4; index >= 1; index--) {"),
    dict(name="C06-entry-off-by-one", prop="C06", file="jellyfysh/scheduler/heap_scheduler/heap.c", only="entry",
         old="if (index + 1 < heap->length) {", new="if (index + 1 <= heap->length) {"),
]
