#!/usr/bin/env python3
"""Mutant self-test (NOT a registered check): applies each textual mutation to a scratch copy of /repo/jellyfysh,
runs the affected check against it (VERIF_REPO=<copy>) and compares the exit code with the expectation.
   selftest/run_selftest.py [name-regex]"""
import json
import os
import re
import shutil
import subprocess
import sys
import tempfile

ROOT = os.path.dirname(os.path.dirname(os.path.abspath(__file__)))
sys.path.insert(0, ROOT)
from selftest.mutants import MUTANTS  # noqa

pat = sys.argv[1] if len(sys.argv) > 1 else "."
results = []
for m in MUTANTS:
    if not re.search(pat, m["name"]):
        continue
    scratch = tempfile.mkdtemp(prefix="verif-mut-")
    try:
        subprocess.run(["rsync", "-a", "--exclude", "output", "--exclude", "build", "/repo/jellyfysh", scratch + "/"], check=True)
        path = os.path.join(scratch, m["file"])
        src = open(path).read()
        if src.count(m["old"]) < 1:
            print("%-50s ANCHOR-LOST (old text not found)" % m["name"])
            results.append((m["name"], "anchor"))
            continue
        open(path, "w").write(src.replace(m["old"], m["new"], 1))
        env = dict(os.environ, VERIF_REPO=scratch)
        cmd = [os.path.join(ROOT, "checks", "run.py"), m["prop"], "--tier", "quick", "--no-evidence"]
        if m.get("only"):
            cmd += ["--only", m["only"]]
        p = subprocess.run(cmd, capture_output=True, text=True, env=env, cwd=ROOT)
        expect = m.get("expect", 1)
        # a tuple: exit 1 (violation) wanted, exit 2 (undecided - never a false alarm, but a miss) tolerated and listed
        ok = p.returncode in expect if isinstance(expect, tuple) else p.returncode == expect
        viol = [l for l in p.stdout.splitlines() if l.startswith(("VIOLATION", "UNDECIDED", "CHECKER-ERROR", "KNOWN"))]
        print("%-50s exit=%d expected=%s %s" % (m["name"], p.returncode, expect, ("OK" if p.returncode != 2 or expect == 2 else "UNDECIDED (miss)") if ok else "MISMATCH"))
        for l in viol[:3]:
            print("      " + l[:230])
        results.append((m["name"], "ok" if ok else "mismatch"))
    finally:
        shutil.rmtree(scratch, ignore_errors=True)
bad = [r for r in results if r[1] != "ok"]
print("%d mutants, %d as expected" % (len(results), len(results) - len(bad)))
sys.exit(1 if bad else 0)
