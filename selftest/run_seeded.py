#!/usr/bin/env python3
"""Runs the registered checks against the seeded (sub-agent written) changes kept under /verif/seeded/<id>/.
For each: scratch copy of /repo, patch applied, demo run both ways, the property's quick check run with VERIF_REPO
pointing at the copy.   selftest/run_seeded.py [id-regex] [--tests]"""
import json
import os
import re
import shutil
import subprocess
import sys
import tempfile

ROOT = os.path.dirname(os.path.dirname(os.path.abspath(__file__)))
pat = sys.argv[1] if len(sys.argv) > 1 and not sys.argv[1].startswith("--") else "."
run_tests = "--tests" in sys.argv
rows = []
for name in sorted(os.listdir(os.path.join(ROOT, "seeded"))):
    d = os.path.join(ROOT, "seeded", name)
    if not os.path.isdir(d) or not re.search(pat, name):
        continue
    prop = name.split("-")[0]
    meta_path = os.path.join(d, "meta.json")
    meta = json.load(open(meta_path)) if os.path.exists(meta_path) else {}
    props = meta.get("checks", [prop])
    scratch = tempfile.mkdtemp(prefix="verif-seed-")
    try:
        subprocess.run(["rsync", "-a", "--exclude", ".git", "--exclude", "jellyfysh/output", "/repo/", scratch + "/"], check=True)
        env = dict(os.environ, PYTHONPATH=scratch)
        clean = subprocess.run(["/venv/bin/python", os.path.join(d, "demo.py")], capture_output=True, text=True, env=env, cwd=scratch)
        ap = subprocess.run(["patch", "-p1", "-s", "-i", os.path.join(d, "patch.diff")], capture_output=True, text=True, cwd=scratch)
        if ap.returncode != 0:
            print("%-10s PATCH DOES NOT APPLY: %s" % (name, (ap.stdout + ap.stderr)[:200]))
            continue
        if any(l.startswith("+++ ") and l.strip().endswith(".c") for l in open(os.path.join(d, "patch.diff"))):
            for b in ("jellyfysh/scheduler/heap_scheduler/heap_build.py",
                      "jellyfysh/potential/merged_image_coulomb_potential/merged_image_coulomb_potential_build.py",
                      "jellyfysh/potential/inverse_power_coulomb_bounding_potential/inverse_power_coulomb_bounding_potential_build.py"):
                subprocess.run(["/venv/bin/python", b], capture_output=True, text=True, env=env, cwd=scratch)
        patched = subprocess.run(["/venv/bin/python", os.path.join(d, "demo.py")], capture_output=True, text=True, env=env, cwd=scratch)
        tests = "-"
        if run_tests:
            t = subprocess.run(["/venv/bin/python", "-m", "pytest", "-q", "-p", "no:cacheprovider", "--timeout=900", "-x"],
                               capture_output=True, text=True, env=env, cwd=scratch)
            tests = (t.stdout.strip().splitlines() or ["?"])[-1][:60]
        verdicts = []
        for p in props:
            c = subprocess.run([os.path.join(ROOT, "checks", "run.py"), p, "--tier", "quick", "--no-evidence"],
                               capture_output=True, text=True, env=dict(os.environ, VERIF_REPO=scratch), cwd=ROOT)
            lines = [l for l in c.stdout.splitlines() if l.startswith(("VIOLATION", "UNDECIDED", "CHECKER-ERROR"))]
            verdicts.append((p, c.returncode, lines[:2]))
        detected = any(rc == 1 for _, rc, _ in verdicts)
        print("%-10s demo clean=%d patched=%d tests=%s  checks=%s  %s" % (
            name, clean.returncode, patched.returncode, tests, [(p, rc) for p, rc, _ in verdicts], "DETECTED" if detected else "MISSED"))
        for p, rc, lines in verdicts:
            for l in lines:
                print("        " + l[:200])
        rows.append((name, detected))
    finally:
        shutil.rmtree(scratch, ignore_errors=True)
print("%d seeded changes, %d detected" % (len(rows), sum(1 for r in rows if r[1])))
