# Offline setup of the verification interpreter (overlay venv) and helpers.
VENV := /verif/.venv
PY   := $(VENV)/bin/python
WHEELS := /opt/veriftools/wheels

.PHONY: setup selftest clean

setup: $(VENV)/.ok

$(VENV)/.ok:
	rm -rf $(VENV)
	/venv/bin/python -m venv $(VENV)
	PIP_NO_INDEX=1 $(VENV)/bin/pip install --quiet --no-index --find-links $(WHEELS) z3-solver cvc5 sympy jsonschema
	echo "import site; site.addsitedir('/venv/lib/python3.12/site-packages')" > $(VENV)/lib/python3.12/site-packages/zz_repo_deps.pth
	$(PY) -c "import z3, cvc5, pycparser, cffi, dill; print('overlay venv ok', z3.get_version_string())"
	touch $(VENV)/.ok

selftest: setup
	$(PY) selftest/run_selftest.py

clean:
	rm -rf $(VENV)
