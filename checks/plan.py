"""Which sidecars / extra unit providers decide which property, at which level."""

COMMON_TRUSTED = [
    "z3 5.1 / cvc5 1.0.3 are sound (unsat answers are believed)",
    "pyvc symbolic executor encodes the Python subset faithfully (cross-checked against CPython by the conformance run)",
]

PLAN = {
    "C14": {
        "sidecars": ["contracts.time_c14"],
        "extra": ["contracts.lib_lemmas:divmod1_lemma"],
        "timeout_ms": {"quick": 120000, "thorough": 600000},
        "level": "proof",
        "trusted": COMMON_TRUSTED,
        "explanation": "contracts on every Time method; comparisons/structure in model R (exact rationals), "
                       "rounding clauses in model F (IEEE binary64, bit precise)",
    },
    "C15": {
        "sidecars": ["contracts.periodic_c15"],
        "timeout_ms": {"quick": 180000, "thorough": 600000},
        "level": "proof",
        "trusted": COMMON_TRUSTED,
        "explanation": "contracts on both PeriodicBoundaries classes: range/idempotence bit-precisely (model F), "
                       "congruence and uniqueness in the reals (model R), loops by invariant",
    },
    "C05": {
        "sidecars": ["contracts.lifting_c05"],
        "level": "proof",
        "trusted": COMMON_TRUSTED + ["model R: machine arithmetic treated as mathematical"],
        "explanation": "contracts on Lifting.insert and the three get_active_identifier walks (loop invariant over "
                       "prefix sums), tiling lemmas for the flow balance",
    },
    "C06": {
        "sidecars": ["contracts.heap_c06", "contracts.sched_c06"],
        "timeout_ms": {"quick": 60000, "thorough": 300000},
        "level": "proof",
        "trusted": COMMON_TRUSTED + ["model R for times (comparisons only)"],
        "explanation": "contracts + loop invariants on heap.c (C front end) and on both Python schedulers",
    },
    "C08": {
        "sidecars": [],
        "extra": ["contracts.wiring:wiring_units", "monitors.provider:bounded"],
        "level": "other",
        "trusted": COMMON_TRUSTED + ["run-time monitors are a bounded stand-in: they cover the shipped configurations for the stated number of events only"],
        "explanation": "wiring lemma per shipped .ini (inductiveness VC from the parsed lists and AST-derived frames) + bounded run-time monitor",
    },
    "C09": {
        "sidecars": [],
        "extra": ["contracts.wiring:wiring_units", "monitors.provider:bounded"],
        "level": "other",
        "trusted": COMMON_TRUSTED + ["run-time monitors are a bounded stand-in: they cover the shipped configurations for the stated number of events only"],
        "explanation": "wiring lemma per shipped .ini + bounded run-time monitor of pending == fresh",
    },
    "C07": {
        "sidecars": [],
        "extra": ["monitors.provider:bounded"],
        "level": "other",
        "bounded_only": True,
        "trusted": COMMON_TRUSTED + ["run-time monitors are a bounded stand-in: they cover the shipped configurations for the stated number of events only"],
        "explanation": "bounded run-time monitor of continuity / time order / one chain / box / identities at every commit",
    },
    "C11": {
        "sidecars": [],
        "extra": ["monitors.provider:bounded"],
        "level": "other",
        "bounded_only": True,
        "trusted": COMMON_TRUSTED + ["run-time monitors are a bounded stand-in: they cover the shipped configurations for the stated number of events only"],
        "explanation": "bounded run-time monitor comparing the occupancy bookkeeping with the positions after every activator update",
    },
    "C12": {
        "sidecars": [],
        "extra": ["monitors.provider:bounded"],
        "level": "other",
        "bounded_only": True,
        "trusted": COMMON_TRUSTED + ["run-time monitors are a bounded stand-in: they cover the shipped configurations for the stated number of events only"],
        "explanation": "bounded run-time monitor of composite velocity and barycentre at every commit",
    },
    "C13": {
        "sidecars": [],
        "extra": ["bounded.provider:state_handler", "monitors.provider:bounded"],
        "level": "other",
        "bounded_only": True,
        "trusted": COMMON_TRUSTED + ["run-time monitors are a bounded stand-in: they cover the shipped configurations for the stated number of events only"],
        "explanation": "bounded run-time monitor: the global state does not change between commits",
    },
    "C17": {
        "sidecars": [],
        "extra": ["monitors.provider:bounded"],
        "level": "other",
        "bounded_only": True,
        "trusted": COMMON_TRUSTED + ["run-time monitors are a bounded stand-in: they cover the shipped configurations for the stated number of events only"],
        "explanation": "bounded run-time monitor of sample times and time-sliced sample states",
    },
    "C03": {
        "sidecars": ["contracts.potentials_c03"],
        "extra": ["contracts.potential_specs_sympy:sympy_units"],
        "level": "other",
        "trusted": COMMON_TRUSTED + ["model R: machine arithmetic treated as mathematical", "pow / sqrt are uninterpreted with the sidecar's axioms",
                                     "sympy (the spec derivatives are d/dx of the spec energies)"],
        "explanation": "contracts on the derivative routines of the closed-form potentials against spec derivatives; the Ewald lattice-sum clause is not decided",
    },
    "C02": {
        "sidecars": ["contracts.potentials_c02"],
        "timeout_ms": {"quick": 120000, "thorough": 600000},
        "level": "other",
        "trusted": COMMON_TRUSTED + ["model R: machine arithmetic treated as mathematical", "pow / sqrt uninterpreted with the sidecar's axioms"],
        "explanation": "contracts on the displacement routines of the closed-form potentials; float totality (no arithmetic failure down to denormals) is not decided here",
    },
    "C18": {
        "sidecars": ["contracts.walker_c18"],
        "level": "other",
        "trusted": COMMON_TRUSTED + ["model R: machine arithmetic treated as mathematical"],
        "explanation": "sample_cell / total_rate proved against the table invariant; _build_table establishing it is a bounded native check",
    },
    "C16": {
        "sidecars": [],
        "extra": ["bounded.provider:cells"],
        "level": "other",
        "bounded_only": True,
        "trusted": COMMON_TRUSTED,
        "explanation": "bounded (exhaustive over a stated finite family of grids) native check of the partition and torus relations",
    },
    "C04": {
        "sidecars": ["contracts.thinning_c04"],
        "extra": ["bounded.provider:domination"],
        "level": "other",
        "trusted": COMMON_TRUSTED + ["model R"],
        "explanation": "confirmation ratio and frame of the two-leaf bounding-potential confirmation proved; domination of the 1/r bound is a bounded grid check",
    },
    "C10": {
        "sidecars": [],
        "extra": ["monitors.provider:bounded"],
        "level": "other",
        "bounded_only": True,
        "trusted": COMMON_TRUSTED + ["run-time monitors are a bounded stand-in: they cover the shipped configurations for the stated number of events only"],
        "explanation": "bounded run-time monitor: near + surplus + far targets partition the other relevant units at every activator call",
    },
}
