"""Which sidecars / extra unit providers decide which property, at which level."""

COMMON_TRUSTED = [
    "z3 5.1 / cvc5 1.0.3 are sound (unsat answers are believed)",
    "pyvc symbolic executor encodes the Python subset faithfully (cross-checked against CPython by the conformance run)",
]

PLAN = {
    "C14": {
        "sidecars": ["contracts.time_c14"],
        "extra": ["contracts.lib_lemmas:divmod1_lemma"],
        "timeout_ms": {"quick": 120000, "thorough": 600000},
        "level": "proof",
        "trusted": COMMON_TRUSTED,
        "explanation": "contracts on every Time method; comparisons/structure in model R (exact rationals), "
                       "rounding clauses in model F (IEEE binary64, bit precise)",
    },
    "C15": {
        "sidecars": ["contracts.periodic_c15"],
        "timeout_ms": {"quick": 180000, "thorough": 600000},
        "level": "proof",
        "trusted": COMMON_TRUSTED,
        "explanation": "contracts on both PeriodicBoundaries classes: range/idempotence bit-precisely (model F), "
                       "congruence and uniqueness in the reals (model R), loops by invariant",
    },
    "C05": {
        "sidecars": ["contracts.lifting_c05"],
        "level": "proof",
        "trusted": COMMON_TRUSTED + ["model R: machine arithmetic treated as mathematical"],
        "explanation": "contracts on Lifting.insert and the three get_active_identifier walks (loop invariant over "
                       "prefix sums), tiling lemmas for the flow balance",
    },
    "C06": {
        "sidecars": ["contracts.heap_c06", "contracts.sched_c06"],
        "timeout_ms": {"quick": 60000, "thorough": 300000},
        "level": "proof",
        "trusted": COMMON_TRUSTED + ["model R for times (comparisons only)"],
        "explanation": "contracts + loop invariants on heap.c (C front end) and on both Python schedulers",
    },
}
