"""Which sidecars / extra unit providers decide which property, at which level."""

COMMON_TRUSTED = [
    "z3 5.1 / cvc5 1.0.3 are sound (unsat answers are believed)",
    "pyvc symbolic executor encodes the Python subset faithfully (cross-checked against CPython by the conformance run)",
]

PLAN = {
    "C14": {
        "sidecars": ["contracts.time_c14"],
        "extra": ["contracts.lib_lemmas:divmod1_lemma"],
        "timeout_ms": {"quick": 120000, "thorough": 600000},
        "level": "proof",
        "trusted": COMMON_TRUSTED,
        "explanation": "contracts on every Time method; comparisons/structure in model R (exact rationals), "
                       "rounding clauses in model F (IEEE binary64, bit precise)",
    },
    "C15": {
        "sidecars": ["contracts.periodic_c15"],
        "timeout_ms": {"quick": 180000, "thorough": 600000},
        "level": "proof",
        "trusted": COMMON_TRUSTED,
        "explanation": "contracts on both PeriodicBoundaries classes: range/idempotence bit-precisely (model F), "
                       "congruence and uniqueness in the reals (model R), loops by invariant",
    },
    "C05": {
        "sidecars": ["contracts.lifting_c05"],
        "level": "proof",
        "trusted": COMMON_TRUSTED + ["model R: machine arithmetic treated as mathematical"],
        "explanation": "contracts on Lifting.insert and the three get_active_identifier walks (loop invariant over "
                       "prefix sums), tiling lemmas for the flow balance",
    },
    "C06": {
        "sidecars": ["contracts.heap_c06", "contracts.sched_c06"],
        "timeout_ms": {"quick": 60000, "thorough": 300000},
        "level": "proof",
        "trusted": COMMON_TRUSTED + ["model R for times (comparisons only)"],
        "explanation": "contracts + loop invariants on heap.c (C front end) and on both Python schedulers",
    },
    "C08": {
        "sidecars": [],
        "extra": ["contracts.wiring:wiring_units", "monitors.provider:bounded"],
        "level": "other",
        "trusted": COMMON_TRUSTED + ["run-time monitors are a bounded stand-in: they cover the shipped configurations for the stated number of events only"],
        "explanation": "wiring lemma per shipped .ini (inductiveness VC from the parsed lists and AST-derived frames) + bounded run-time monitor",
    },
    "C09": {
        "sidecars": [],
        "extra": ["contracts.wiring:wiring_units", "monitors.provider:bounded"],
        "level": "other",
        "trusted": COMMON_TRUSTED + ["run-time monitors are a bounded stand-in: they cover the shipped configurations for the stated number of events only"],
        "explanation": "wiring lemma per shipped .ini + bounded run-time monitor of pending == fresh",
    },
    "C07": {
        "sidecars": ["contracts.handlers_c07", "contracts.cellboundary_c07", "contracts.composite_c12"],
        "extra": ["monitors.provider:bounded"],
        "level": "other",
        "trusted": COMMON_TRUSTED + ["run-time monitors are a bounded stand-in: they cover the shipped configurations for the stated number of events only"],
        "explanation": 'time slicing primitive and the cell-boundary candidate time proved (contracts); continuity / time order / one chain / box / identities at every commit by a bounded run-time monitor',
    },
    "C11": {
        "sidecars": ["contracts.cellboundary_c07"],
        "extra": ["monitors.provider:bounded", "bounded.provider:occupancy"],
        "level": "other",
        "trusted": COMMON_TRUSTED + ["run-time monitors are a bounded stand-in: they cover the shipped configurations for the stated number of events only"],
        "explanation": 'cell-boundary candidate time / direction / boundary proved (contract); bookkeeping == positions by a bounded run-time monitor and a bounded event-loop harness on the real occupancy',
    },
    "C12": {
        "sidecars": ["contracts.composite_c12"],
        "extra": ["monitors.provider:bounded", "bounded.provider:composite"],
        "level": "other",
        "trusted": COMMON_TRUSTED + ["run-time monitors are a bounded stand-in: they cover the shipped configurations for the stated number of events only"],
        "explanation": 'the per-leaf registration step (composite change = weight x leaf change, two-level trees) proved; bounded run-time monitor of composite velocity and barycentre at every commit + bounded harness on the real node creators and handlers (2 and 3 point masses)',
    },
    "C13": {
        "sidecars": [],
        "extra": ["bounded.provider:state_handler", "monitors.provider:bounded"],
        "level": "other",
        "bounded_only": True,
        "trusted": COMMON_TRUSTED + ["run-time monitors are a bounded stand-in: they cover the shipped configurations for the stated number of events only"],
        "explanation": "bounded run-time monitor: the global state does not change between commits",
    },
    "C17": {
        "sidecars": ["contracts.handlers_c07"],
        "extra": ["monitors.provider:bounded"],
        "level": "other",
        "trusted": COMMON_TRUSTED + ["run-time monitors are a bounded stand-in: they cover the shipped configurations for the stated number of events only"],
        "explanation": 'sampling / end-of-run candidate times proved (constructors, per-call step in models R and F); time-sliced sample states by a bounded run-time monitor',
    },
    "C03": {
        "sidecars": ["contracts.potentials_c03"],
        "extra": ["contracts.potential_specs_sympy:sympy_units"],
        "level": "other",
        "trusted": COMMON_TRUSTED + ["model R: machine arithmetic treated as mathematical", "pow / sqrt are uninterpreted with the sidecar's axioms",
                                     "sympy (the spec derivatives are d/dx of the spec energies)"],
        "explanation": "contracts on the derivative routines of the closed-form potentials against spec derivatives; the Ewald lattice-sum clause is not decided",
    },
    "C02": {
        "sidecars": ["contracts.potentials_c02"],
        "timeout_ms": {"quick": 120000, "thorough": 600000},
        "level": "other",
        "trusted": COMMON_TRUSTED + ["model R: machine arithmetic treated as mathematical", "pow / sqrt uninterpreted with the sidecar's axioms"],
        "explanation": "contracts on the displacement routines of the closed-form potentials; float totality (no arithmetic failure down to denormals) is not decided here",
    },
    "C18": {
        "sidecars": ["contracts.walker_c18", "contracts.cellveto_c18"],
        "level": "other",
        "trusted": COMMON_TRUSTED + ["model R: machine arithmetic treated as mathematical"],
        "explanation": "sample_cell / total_rate proved against the table invariant; _build_table establishing it is a bounded native check",
    },
    "C16": {
        "sidecars": [],
        "extra": ["bounded.provider:cells"],
        "level": "other",
        "bounded_only": True,
        "trusted": COMMON_TRUSTED,
        "explanation": "bounded (exhaustive over a stated finite family of grids) native check of the partition and torus relations",
    },
    "C04": {
        "sidecars": ["contracts.thinning_c04"],
        "extra": ["bounded.provider:domination", "bounded.provider:thinning"],
        "level": "other",
        "trusted": COMMON_TRUSTED + ["model R"],
        "explanation": 'confirmation ratio and frame of the two-leaf confirmation proved; domination of the 1/r bound is a bounded grid check; composite-object / cell-bounding confirmation sites by a bounded harness with controlled draws',
    },
    "C10": {
        "sidecars": ["contracts.cellveto_c18"],
        "extra": ["monitors.provider:bounded", "bounded.provider:occupancy", "bounded.provider:factor_files"],
        "level": "other",
        "trusted": COMMON_TRUSTED + ["run-time monitors are a bounded stand-in: they cover the shipped configurations for the stated number of events only"],
        "explanation": 'cell-veto target cell proved (contract); partition of the partners by a bounded run-time monitor and a bounded occupancy harness; factor-file in-states by a bounded harness against an independent parse',
    },
    "C19": {
        "sidecars": [],
        "extra": ["bounded.provider:dump_resume"],
        "level": "other",
        "bounded_only": True,
        "trusted": COMMON_TRUSTED,
        "explanation": "bounded differential check: pickled schedulers and resumed dumps continue exactly like the originals",
    },
}
