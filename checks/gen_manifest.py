#!/usr/bin/env python3
"""Regenerates /verif/MANIFEST.json from checks/plan.py and checks/manifest_text.py (run after editing either)."""
import json
import os
import sys

ROOT = os.path.dirname(os.path.dirname(os.path.abspath(__file__)))
sys.path.insert(0, ROOT)
from checks.plan import PLAN  # noqa
from checks.manifest_text import TEXT, NOT_APPLICABLE  # noqa

ALL = ["C%02d" % i for i in range(1, 21)]

BASELINE = json.load(open("/root/.vp/BASELINE.json"))["cmd"] if os.path.exists("/root/.vp/BASELINE.json") else \
    "cd /repo && /venv/bin/python -m pytest -ra -q -p no:cacheprovider --timeout=900 --continue-on-collection-errors --junitxml=<file>"

manifest = {
    "version": 1,
    "setup_cmd": "make -C /verif setup",
    "hooks": {
        "guard": "JELLYFYSH_VERIF",
        "enable": "none needed: contracts are sidecar files under /verif/contracts keyed to the functions by name; "
                  "run-time monitors wrap the real functions from outside",
        "baseline_off_cmd": BASELINE.replace("--junitxml=<file>", "--junitxml=/tmp/verif-baseline.junit.xml"),
        "source_commits": [],
        "add_only": True,
    },
    "engines": [
        {"name": "pyvc", "path": "/verif/pyvc",
         "serves_properties": sorted(PLAN),
         "kind_free_text": "contract-based deductive verifier written for this task: symbolic execution of the real "
                           "Python (ast) and C (pycparser) sources path by path against sidecar contracts, loop "
                           "invariants, frames and lemmas; obligations discharged by z3 5.1 with cvc5 as second solver"},
    ],
    "checks": [],
    "not_applicable": [],
    "notes": "Exit codes of every check: 0 held, 1 VIOLATION (replay file attached), 2 UNDECIDED (solver budget), "
             "3 checker error (anchor lost / outside subset / vacuity). See DESIGN.md.",
}
for pid in ALL:
    if pid in PLAN:
        t = TEXT[pid]
        manifest["checks"].append({
            "property_id": pid,
            "quick_cmd": "./checks/run.py %s --tier quick" % pid,
            "thorough_cmd": "./checks/run.py %s --tier thorough" % pid,
            "evidence_file": "/verif/evidence/%s.json" % pid,
            "replay_cmd_template": "./checks/run.py %s --replay {path}" % pid,
            "engine": "pyvc",
            "level_claimed": {"category": PLAN[pid]["level"], "text": t["level_text"], "design_ref": t.get("design_ref", "DESIGN.md §4 " + pid)},
            "level_note": t["level_note"],
            "technique": t["technique"],
        })
    else:
        manifest["not_applicable"].append({"property_id": pid, "reason": NOT_APPLICABLE[pid]})

with open(os.path.join(ROOT, "MANIFEST.json"), "w") as f:
    json.dump(manifest, f, indent=1)
print("MANIFEST.json written: %d checks, %d not applicable" % (len(manifest["checks"]), len(manifest["not_applicable"])))
