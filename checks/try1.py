import sys, time
sys.path.insert(0, "/verif")
import contracts.time_c14
from pyvc.core import REG
from pyvc.interp import Explorer
from pyvc.discharge import discharge
for q, c in REG.contracts.items():
    t = time.time()
    ex = Explorer(c)
    obs = ex.explore()
    discharge(obs, timeout_ms=20000)
    print(q, "paths", ex.paths, "obligations", len(obs), "%.1fs" % (time.time() - t))
    for ob in obs:
        print("   ", ob.full_name, ob.kind, ob.result, "%.2fs" % ob.seconds, "(expect sat)" if ob.expect_fail else "")
