#!/verif/.venv/bin/python
"""Registered check entry point:   checks/run.py <PROPERTY> --tier quick|thorough   [--replay FILE]

exit 0  every obligation of the property discharged on the current tree under $VERIF_REPO (default /repo)
exit 1  VIOLATION property=<id> replay=<file>   (a named obligation fails; counter-model replayed natively)
exit 2  UNDECIDED obligation=<name>              (solver budgets exhausted; never reported as a violation)
exit 3  checker error: anchor not found, function outside the supported subset, vacuity alarm, crash
"""
import argparse
import faulthandler
import signal
import importlib
import json
import os
import re
import subprocess
import sys
import time

HERE = os.path.dirname(os.path.abspath(__file__))
ROOT = os.path.dirname(HERE)
sys.path.insert(0, ROOT)
VENV_PY = os.path.join(ROOT, ".venv", "bin", "python")


def ensure_venv():
    if not os.path.exists(os.path.join(ROOT, ".venv", ".ok")):
        subprocess.run(["make", "-C", ROOT, "setup"], check=True, stdout=subprocess.DEVNULL)
    if os.path.realpath(sys.executable) != os.path.realpath(VENV_PY) and not sys.prefix.startswith(os.path.join(ROOT, ".venv")):
        os.execv(VENV_PY, [VENV_PY] + sys.argv)


def main():
    faulthandler.register(signal.SIGUSR1, all_threads=True)
    ap = argparse.ArgumentParser()
    ap.add_argument("prop")
    ap.add_argument("--tier", default=os.environ.get("VERIF_TIER", "quick"))
    ap.add_argument("--replay", default=None)
    ap.add_argument("--only", default=None, help="regex on unit names (debugging)")
    ap.add_argument("--no-evidence", action="store_true")
    args = ap.parse_args()
    ensure_venv()
    from checks import driver
    if args.replay:
        sys.exit(driver.replay_file(args.replay))
    sys.exit(driver.run_property(args.prop, args.tier, only=args.only, write_evidence=not args.no_evidence))


if __name__ == "__main__":
    main()
