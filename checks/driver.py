"""Runs all units (function contracts, lemmas, C contracts, wiring VCs, bounded stand-ins) of one property,
reports violations with replays, honours known findings, writes the evidence file."""
import hashlib
import importlib
import json
import os
import re
import sys
import time

import z3

ROOT = os.path.dirname(os.path.dirname(os.path.abspath(__file__)))

from pyvc import loader
from pyvc.core import REG, MODELS
from pyvc.runner import verify_contract, verify_lemma, UnitResult, finish_all
from pyvc.discharge import get_model, discharge, candidate_model
from pyvc import replay as replay_mod
from checks.plan import PLAN

EVIDENCE_DIR = os.path.join(ROOT, "evidence")
REPLAY_DIR = os.path.join(ROOT, "replays")
KNOWN_FILE = os.path.join(ROOT, "known_findings.txt")


def slug(s):
    return re.sub(r"[^A-Za-z0-9_.-]+", "_", s)[:120]


def load_known():
    """Lines:  finding: property=<id> obligation=<name> class=<spec expression characterising the failing inputs> | <text>
               fixed: property=<id> <commit> <what failed>        (suppresses nothing)"""
    out = []
    if not os.path.exists(KNOWN_FILE):
        return out
    for line in open(KNOWN_FILE):
        line = line.strip()
        if not line or line.startswith("#") or line.startswith("fixed:"):
            continue
        m = re.match(r"finding:\s+property=(\S+)\s+obligation=(\S+)\s+class=(.*?)\s+\|\s+(.*)$", line)
        if m:
            out.append({"property": m.group(1), "obligation": m.group(2), "class": m.group(3), "text": m.group(4)})
    return out


def obligation_key(unit, ob):
    return "%s::%s" % (unit.name, ob.name)


def known_match(prop, unit, ob, known):
    key = obligation_key(unit, ob)
    for k in known:
        if k["property"] == prop and (k["obligation"] == key or key.startswith(k["obligation"])):
            return k
    return None


def failing_outside_known(unit, ob, k, timeout_ms):
    """Is there a counter-model of ``ob`` OUTSIDE the recorded input class?  (returns 'unsat' if all failures are known)"""
    from pyvc.core import Ctx
    from pyvc.interp import Interp
    from pyvc.values import Frame
    ex = unit.explorer
    num = MODELS[unit.model_name]
    ctx = Ctx(num, [], ob.path, ex)
    it = Interp(ctx, ex, None)
    env = {}
    for name, (v, ty) in ex.path_inputs.get(ob.path, {}).items():
        if name.startswith("global:"):
            env[name.split(":")[2]] = v
        else:
            env[name] = v
    for i, (kind, term) in enumerate(ex.path_draws.get(ob.path, [])):
        env["draw%d" % i] = term
    mod = loader.load_module(unit.name.split(":")[0]) if ":" in unit.name and not unit.name.startswith("lemma:") \
        else loader.load_module("jellyfysh.base.time")
    it.frames.append(Frame(mod, None, None, None, env))
    # evaluate the class predicate in the entry heap (H0 constants)
    cls_pred = it.eval_clause(k["class"])
    s = z3.Solver()
    s.set("timeout", timeout_ms)
    for p in ob.pc:
        s.add(p)
    for p in ctx.pc:
        s.add(p)
    s.add(z3.Not(ob.goal))
    s.add(z3.Not(cls_pred) if not isinstance(cls_pred, bool) else z3.BoolVal(not cls_pred))
    return str(s.check())


def write_replay(prop, unit, ob, payload):
    os.makedirs(REPLAY_DIR, exist_ok=True)
    path = os.path.join(REPLAY_DIR, "%s-%s.json" % (prop, slug(obligation_key(unit, ob))))
    with open(path, "w") as f:
        json.dump(payload, f, indent=1, default=str)
    return path


def handle_failure(prop, unit, ob, sidecars, timeout_ms):
    """Counter-model -> native replay.  Returns (replay path, reproduced?)."""
    payload = {"property": prop, "unit": unit.name, "obligation": ob.full_name, "kind": ob.kind,
               "solver": {"result": ob.result, "backend": ob.backend, "seconds": round(ob.seconds, 3)},
               "numeric_model": unit.model_name, "repo": loader.REPO}
    reproduced = False
    try:
        if hasattr(unit, "custom_replay") and unit.custom_replay is not None:
            info = unit.custom_replay(unit, ob)
            payload.update(info)
            reproduced = bool(info.get("reproduced"))
        elif unit.kind == "function" and unit.explorer is not None:
            num = MODELS[unit.model_name]
            friendly = friendly_constraints(unit, ob, num)
            model = ob.model if getattr(ob, "model", None) is not None else \
                get_model(ob, timeout_ms=timeout_ms, extra=friendly)
            if model is not None:
                inputs = replay_mod.concretize(ob, unit.explorer, model, num)
                payload["inputs"] = inputs
                case = {"qualname": unit.name, "sidecars": sidecars, "inputs": inputs}  # unit.name is the contract key
                payload["case"] = case
                nat = replay_mod.run_native(case)
                payload["native"] = nat
                if nat.get("violated") and nat.get("requires_hold", True):
                    reproduced = True
                elif ob.kind in ("safety", "assert", "no-raise") and nat.get("raised"):
                    reproduced = nat.get("requires_hold", True)
            payload["counter_model"] = str(model)[:4000] if model is not None else None
        elif unit.kind == "lemma":
            model = get_model(ob, timeout_ms=timeout_ms)
            payload["counter_model"] = str(model)[:4000] if model is not None else None
    except Exception as e:   # replay trouble never changes the verdict
        payload["replay_error"] = "%s: %s" % (type(e).__name__, e)
    payload["reproduced_natively"] = reproduced
    return write_replay(prop, unit, ob, payload), reproduced


def native_bounded_unit(c, plan, tier, seed):
    """A contract whose clauses are all 'native:' - a BOUNDED stand-in: the real function is run on generated inputs and
    the clauses are evaluated natively; never counted as proved."""
    from pyvc import fuzz
    t0 = time.time()
    u = UnitResult("bounded-native:" + c.key, kind="bounded")
    u.props = list(c.prop)
    u.model_name = "native"
    secs = 12 if tier == "quick" else 90
    r = fuzz.run_fuzz(c.key, plan["sidecars"], seed=seed, n=10 ** 7, seconds=secs)
    u.seconds = time.time() - t0
    if "error" in r:
        u.status, u.detail = "crash", "native search failed: " + r["error"][-400:]
        return u
    st = r.get("stats", {})
    u.evaluations = st.get("evaluated_clauses", 0)
    u.distinct = st.get("accepted", 0)
    u.rule = "inputs generated with the real constructors (seed %d, %d s budget), rejected unless the requires hold natively; " \
             "distinct = accepted inputs" % (seed, secs)
    u.samples = [{"contract": c.key, "stats": st}]
    u.detail = "BOUNDED: %d generated inputs accepted, %d clause evaluations in %d s" % (st.get("accepted", 0), u.evaluations, secs)
    if r.get("found"):
        u.status = "failed"
        u.monitor_violations = [{"message": "native clause violated: " + r["found"]["violated"][0][:120], "property": c.prop[0],
                                 "detail": r["found"]}]
    else:
        u.status = "held" if st.get("accepted", 0) > 0 else "crash"
        if u.status == "crash":
            u.detail += " | no generated input satisfied the requires"
    return u


def run_fuzz_all(units, plan, tier, seed):
    import concurrent.futures as cf
    from pyvc import fuzz
    if os.environ.get("VERIF_NO_FUZZ"):
        return {}
    todo = []
    for u in units:
        if u.kind not in ("function", "c-function") or u.status in ("anchor", "out_of_reach", "crash"):
            continue
        cc = REG.contracts.get(u.name)
        if cc is not None and not cc.native_search:
            continue
        if u.status == "proved":
            secs = 2 if tier == "quick" else 15
        else:
            secs = 20 if tier == "quick" else 90
        todo.append((u, secs))
    out = {}

    known = load_known()

    def one(item):
        u, secs = item
        classes = [k["class"] for k in known if k["obligation"].startswith(u.name + "::")
                   and k["class"].strip() not in ("*", "any")]
        return u.name, fuzz.run_fuzz(u.name, plan["sidecars"], seed=seed, n=200000, seconds=secs, known_classes=classes)
    with cf.ThreadPoolExecutor(max_workers=8) as ex:
        for name, r in ex.map(one, todo):
            out[name] = r
    for u, _ in todo:
        r = out.get(u.name, {})
        u.fuzz = r
        if "error" in r:
            u.notes.append("native search error: " + r["error"][-200:])
    return out


def friendly_constraints(unit, ob, num):
    """Soft preference for human-scale witnesses (changes which witness is shown, never the verdict)."""
    out = []
    try:
        for name, (v, ty) in unit.explorer.path_inputs.get(ob.path, {}).items():
            if ty.kind == "float" and z3.is_expr(v):
                if num.name == "R":
                    out.append(z3.And(v >= -1024, v <= 1024))
                else:
                    out.append(z3.And(z3.fpGEQ(v, z3.FPVal(-1024.0, z3.Float64())), z3.fpLEQ(v, z3.FPVal(1024.0, z3.Float64()))))
    except Exception:
        return []
    return out


def replay_file(path):
    payload = json.load(open(path))
    case = payload.get("case")
    if not case:
        print("replay file carries no native case (obligation %s): %s" % (payload.get("obligation"),
                                                                           payload.get("counter_model")))
        return 0
    for m in case.get("sidecars", []):
        importlib.import_module(m)
    nat = replay_mod.run_native(case)
    print(json.dumps(nat, indent=1))
    return 1 if nat.get("violated") else 0


def run_property(prop, tier, only=None, write_evidence=True):
    t0 = time.time()
    if prop not in PLAN:
        print("property %s is not claimed (see MANIFEST.not_applicable)" % prop)
        return 3
    plan = PLAN[prop]
    seed = int(os.environ.get("VERIF_SEED", "0"))
    timeout_ms = plan.get("timeout_ms", {}).get(tier, 30000 if tier == "quick" else 120000)
    for m in plan["sidecars"]:
        importlib.import_module(m)
    units = []
    # --- function contracts
    for q, c in list(REG.contracts.items()):
        if prop not in c.prop or c.assume_only:
            continue
        if only and not re.search(only, q):
            continue
        if c.ghost.get("bounded_only"):
            units.append(native_bounded_unit(c, plan, tier, seed))
            continue
        u = verify_contract(c, timeout_ms=timeout_ms, defer=True)
        units.append(u)
    # --- lemmas over contracts
    for l in REG.lemmas:
        if prop not in l.prop:
            continue
        if only and not re.search(only, l.name):
            continue
        u = verify_lemma(l, timeout_ms=timeout_ms, defer=True)
        units.append(u)
    finish_all(units, timeout_ms=timeout_ms)
    for u in units:
        print(u.summary())
        if os.environ.get("VERIF_VERBOSE"):
            for o in u.obligations:
                if o.seconds > float(os.environ.get("VERIF_VERBOSE")):
                    print("      %6.1fs %-8s %-28s %s" % (o.seconds, o.result, o.backend, o.full_name[:110]))
    sys.stdout.flush()
    # --- other providers (C front end, wiring VCs, bounded stand-ins)
    for provider in plan.get("extra", []):
        modname, _, fname = provider.partition(":")
        fn = getattr(importlib.import_module(modname), fname)
        for u in fn(prop=prop, tier=tier, seed=seed, timeout_ms=timeout_ms, only=only):
            units.append(u)
            print(u.summary())
            sys.stdout.flush()

    # --- native cross-check / counterexample search (bounded; never counted as proof)
    fuzz_results = run_fuzz_all(units, plan, tier, seed)

    known = load_known()
    tried_candidates = {}
    violations, known_hits, undecided, errors = [], [], [], []
    for u in units:
        fr = fuzz_results.get(u.name)
        if fr and fr.get("found"):
            f = fr["found"]
            class _Ob(object):
                pass
            ob = _Ob()
            ob.name = "native:" + f["violated"][0][:100]
            ob.full_name, ob.kind, ob.result, ob.backend, ob.seconds, ob.path = ob.name, "native", "violated", "cpython", 0.0, 0
            k = known_match(prop, u, ob, known)
            if k is not None and k["class"].strip() in ("*", "any"):
                known_hits.append((u, ob, k))
            else:
                payload = {"property": prop, "unit": u.name, "obligation": ob.name, "kind": "native counterexample search",
                           "proof_status_of_unit": u.status, "repo": loader.REPO, "failing_input": f,
                           "note": "input found by the native search on the real code; contract clause evaluated natively",
                           "reproduced_natively": True}
                violations.append((u, ob, write_replay(prop, u, ob, payload), True))
            if u.status == "undecided":
                u.status = "failed-natively"
    for u in units:
        if u.status in ("anchor", "out_of_reach", "crash", "vacuous") :
            errors.append((u, "%s: %s %s" % (u.status, u.detail, ",".join(u.vacuous))))
        if u.status == "undecided":
            for ob in u.undecided:
                # a model of the ground instances is a CANDIDATE input: replay it natively, the real code decides
                # (tried for every undecided obligation of a function unit: whether the worker saw a ground-instance model
                # depends on its time budget under load)
                if u.kind in ("function", "c-function") and len(tried_candidates) < 6 and not tried_candidates.get(ob.name):
                    tried_candidates[ob.name] = True
                    try:
                        m = candidate_model(ob)
                        if m is not None:
                            ob.model = m
                            path, reproduced = handle_failure(prop, u, ob, plan["sidecars"], timeout_ms)
                            if reproduced:
                                ob.result = "sat"
                                ob.backend = "z3 candidate model, confirmed by native replay"
                                violations.append((u, ob, path, True))
                                continue
                    except Exception:
                        pass
                undecided.append((u, ob))
        if u.status == "failed":
            seen = set()
            for ob in u.failed:
                if ob.name in seen:
                    continue
                seen.add(ob.name)
                k = known_match(prop, u, ob, known)
                if k is not None:
                    r = "unsat"
                    if k["class"].strip() not in ("*", "any"):
                        try:
                            r = failing_outside_known(u, ob, k, timeout_ms)
                        except Exception as e:
                            r = "error:%s" % e
                    if r == "unsat":
                        known_hits.append((u, ob, k))
                        continue
                path, reproduced = handle_failure(prop, u, ob, plan["sidecars"], timeout_ms)
                violations.append((u, ob, path, reproduced))
            for ob in u.undecided:
                undecided.append((u, ob))
        if u.kind == "bounded" and u.status == "failed":
            class _Ob(object):
                pass
            seen_msgs = set()
            for v in getattr(u, "monitor_violations", []):
                if v["message"] in seen_msgs:
                    continue
                seen_msgs.add(v["message"])
                ob = _Ob()
                ob.name = "monitor:" + v["message"][:100]
                ob.full_name, ob.kind, ob.result, ob.backend, ob.seconds, ob.path = ob.name, "monitor", "violated", "cpython", 0.0, 0
                payload = {"property": prop, "unit": u.name, "obligation": ob.name, "kind": "run-time contract monitor (bounded stand-in)",
                           "repo": loader.REPO, "failing_history": v, "reproduced_natively": True,
                           "how_to_replay": "python -m monitors.harness <config> <events> <seed> <monitors> with VERIF_REPO set"}
                violations.append((u, ob, write_replay(prop, u, ob, payload), True))

    for u, ob, k in known_hits:
        print("KNOWN-FINDING: property=%s %s [%s]" % (prop, k["text"], obligation_key(u, ob)))
    for u, ob, path, reproduced in violations:
        tail = "" if reproduced else " no-failing-input-found"
        print("VIOLATION property=%s replay=%s obligation=%s%s" % (prop, path, obligation_key(u, ob), tail))
    for u, ob in undecided:
        print("UNDECIDED obligation=%s (%s, %.1fs)" % (obligation_key(u, ob), ob.info.get("reason", ""), ob.seconds))
    for u, msg in errors:
        print("CHECKER-ERROR unit=%s %s" % (u.name, msg))

    wall = time.time() - t0
    if write_evidence:
        write_evidence_file(prop, tier, seed, plan, units, violations, known_hits, undecided, errors, wall)
    if violations:
        return 1
    if errors:
        return 3
    if undecided:
        return 2
    return 0


def write_evidence_file(prop, tier, seed, plan, units, violations, known_hits, undecided, errors, wall):
    os.makedirs(EVIDENCE_DIR, exist_ok=True)
    proof_units = [u for u in units if u.kind != "bounded"]
    bounded_units = [u for u in units if u.kind == "bounded"]
    n_ob = n_dis = 0
    per_unit, samples, backends, trusted, notes = [], [], {}, set(plan.get("trusted", [])), set()
    solver_s = 0.0
    for u in proof_units:
        n, d = u.counts()
        n_ob += n
        n_dis += d
        trusted |= set(u.trusted)
        notes |= set(u.notes)
        for o in u.obligations:
            solver_s += o.seconds
            if o.backend:
                backends[o.backend] = backends.get(o.backend, 0) + 1
        per_unit.append({"unit": u.name, "kind": u.kind, "status": u.status, "numeric_model": u.model_name,
                         "source_hash": u.source_hash, "paths": u.paths, "obligations": n, "discharged": d,
                         "canaries_failed_as_expected": sum(1 for o in u.obligations if o.expect_fail and o.result == "sat"),
                         "inlined_callees": u.inlined, "callee_contracts_used": u.used_contracts,
                         "assumed_interface_contracts": sorted(
                             q for q in (u.used_contracts or [])
                             if any(c.qualname == q and c.assume_only for c in REG.contracts.values())),
                         "leading_asserts_taken_as_requires": u.assumed_asserts,
                         "native_search": (getattr(u, "fuzz", {}) or {}).get("stats"),
                         "seconds": round(u.seconds, 2), "detail": u.detail[:300]})
        for o in u.obligations[:2]:
            if len(samples) < 12 and not o.expect_fail:
                samples.append({"obligation": obligation_key(u, o), "kind": o.kind, "result": o.result,
                                "backend": o.backend, "goal": str(o.goal)[:300]})
    bounded = []
    evaluations = 0
    for u in bounded_units:
        bounded.append({"unit": u.name, "status": u.status, "bound": u.detail, "evaluations": getattr(u, "evaluations", 0),
                        "seconds": round(u.seconds, 2)})
        evaluations += getattr(u, "evaluations", 0)
        for smp in getattr(u, "samples", [])[:3]:
            if len(samples) < 16:
                samples.append(smp)
    level = plan["level"]
    if level == "proof" and (bounded_units and plan.get("bounded_carries_clause", False)):
        level = "other"
    coverage = {
        "obligations": n_ob, "discharged": n_dis,
        "checker_cmd": "checks/run.py %s --tier %s" % (prop, tier),
        "trusted_base": sorted(trusted),
        "samples": samples,
        "functions_under_contract": [p["unit"] for p in per_unit if p["kind"] in ("function", "c-function")],
        "units": per_unit,
        "backends": backends,
        "solver_seconds": round(solver_s, 2),
        "bounded_stand_ins": bounded,
        "known_findings_hit": ["%s [%s]" % (k["text"], obligation_key(u, ob)) for u, ob, k in known_hits],
        "undecided": [obligation_key(u, ob) for u, ob in undecided],
        "checker_errors": [m for _, m in errors],
        "engine_notes": sorted(notes),
        "assumed_interface_contracts": sorted({q for p in per_unit for q in p.get("assumed_interface_contracts", [])}),
        "explanation": plan.get("explanation", ""),
        "repo": loader.REPO,
    }
    if bounded_units:
        coverage["evaluations"] = evaluations
        coverage["distinct_nontrivial"] = sum(getattr(u, "distinct", 0) for u in bounded_units)
        coverage["rule"] = "; ".join(sorted(set(getattr(u, "rule", "") for u in bounded_units if getattr(u, "rule", ""))))
    ev = {"property_id": prop, "tier": tier if tier in ("quick", "thorough") else "quick", "seed": seed,
          "level": level, "coverage": coverage,
          "assumptions": sorted(trusted | set(plan.get("assumptions", []))),
          "wall_s": round(wall, 2), "violations": len(violations)}
    with open(os.path.join(EVIDENCE_DIR, "%s.json" % prop), "w") as f:
        json.dump(ev, f, indent=1, default=str)
