"""Debug helper: time the symbolic exploration of each contract of a sidecar.  usage: explore_time.py <sidecar module> [regex]"""
import sys, time, importlib, re
sys.path.insert(0, '/verif')
importlib.import_module(sys.argv[1])
from pyvc.core import REG
from pyvc.interp import Explorer
for k, c in REG.contracts.items():
    if len(sys.argv) > 2 and not re.search(sys.argv[2], k):
        continue
    t = time.time()
    try:
        ex = Explorer(c); obs = ex.explore()
        print('%-90s %.1fs paths=%d obs=%d' % (k, time.time() - t, ex.paths, len(obs)))
    except Exception as e:
        print('%-90s %.1fs ERROR %s: %s' % (k, time.time() - t, type(e).__name__, str(e)[:300]))
    sys.stdout.flush()
