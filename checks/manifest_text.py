"""Per-property wording for MANIFEST.json (kept next to plan.py so that the two stay in step)."""
WIP = "not claimed yet: the contracts for this property are still being built (see DESIGN.md §4 for the plan); no check is registered until its obligations are discharged on the pinned tree"

TEXT = {
    "C14": {
        "technique": "contract-based deductive verification: pre/postconditions on every Time method, VCs generated from "
                     "the real source by symbolic execution, discharged by z3/cvc5 (model R exact rationals; model F IEEE binary64)",
        "level_text": "every method of jellyfysh.base.time.Time is verified against its contract for all inputs: the six "
                      "comparisons against the exact rational order, __add__/from_float/__sub__/update against the abstract value",
        "level_note": "trusted: solver soundness; the encoder (conformance-checked against CPython); model R treats machine "
                      "arithmetic as mathematical for the structural clauses, NaN operands excluded by precondition",
    },
    "C15": {
        "technique": "contract-based deductive verification: contracts + loop invariants on both PeriodicBoundaries classes, "
                     "VCs from the real source, z3/cvc5; range and idempotence bit-precisely in IEEE binary64, congruence in the reals",
        "level_text": "all six methods of HypercubicPeriodicBoundaries and HypercuboidPeriodicBoundaries verified against "
                      "contracts for every input: result in [0,L) / [-L/2,L/2], congruent to the input, idempotent, "
                      "list versions by loop invariant for any dimension; cubic = cuboid by a uniqueness lemma over the contracts",
        "level_note": "trusted: solver soundness; CPython float_rem encoding with fmod abstracted by its C99 properties; "
                      "congruence clause in model R (machine arithmetic treated as mathematical); settings' length tuples are not aliased by argument lists",
    },
    "C05": {
        "technique": "contract-based deductive verification: representation invariant + per-call contract on Lifting.insert, "
                     "loop invariants over prefix sums on the three get_active_identifier walks, interval-tiling lemmas; z3/cvc5 (model R)",
        "level_text": "insert and the three selection walks are verified for all table sizes, insertion orders and the whole "
                      "closed range of the draws: the returned unit's cumulative interval contains the walk position, only "
                      "strictly negative derivatives are selectable, frames proved; the flow balance follows by the tiling lemmas",
        "level_note": "trusted: solver soundness; model R (machine arithmetic treated as mathematical); inductive consequences "
                      "psum-nonneg/psum-frame of the prefix-sum axioms; summation of the tiling step over the positive entries is meta-level induction",
    },
    "C06": {
        "technique": "contract-based deductive verification of the real C and Python sources: ACSL-style contracts and loop "
                     "invariants on heap.c (pycparser front end: bounds / null / unsigned no-wrap obligations at every access), "
                     "contracts on HeapScheduler and ListScheduler with the cffi calls checked against the C contracts; z3/cvc5",
        "level_text": "all seven functions of heap.c and the push/trash/get methods of both schedulers are verified for every heap "
                      "size (incl. reallocation and counter wrap-around): heap order with quotient-then-remainder comparison, returned "
                      "entry live and minimal, empty scheduler raises, infinite times never stored / never first, no invalid memory "
                      "access, no unsigned wrap; exact multiset preservation of the C array is NOT claimed (weaker clauses: new entry "
                      "present, nothing of an absent handler invented)",
        "level_note": "trusted: solver soundness; cffi glue (handles, OverflowError, callback binding); realloc/calloc models; model R for "
                      "times (comparisons only); induction schema behind the root-minimality axiom (its step is proved); "
                      "HeapScheduler.__getstate__/__setstate__ are outside the subset (see C19)",
    },
    "C08": {
        "technique": "contract-based: wiring lemma (inductiveness VC per shipped .ini from the parsed tagger lists and AST-derived handler/tagger frames, discharged by z3) + run-time contract monitors on the real classes (wrapped from outside) during real runs of the 17 runnable shipped configurations - a BOUNDED stand-in, labelled as such and never counted as proved",
        "level_text": "for each of the 19 shipped configurations: no candidate event survives a commit that changes the motion of a unit it depends on (every motion-changing handler trashes every activated interaction tagger; proved as part of the inductive invariant W); the bookkeeping of TagActivator itself is monitored, not proved",
        "level_note": "trusted: frames are derived syntactically (stores to .velocity / velocity-changing helpers reachable from send_out_state); TagActivator / scheduler protocol covered by the bounded monitor only (4000 events per configuration in quick); harness-generated configurations are not covered",
    },
    "C09": {
        "technique": "contract-based: wiring lemma (inductiveness VC per shipped .ini, z3) + run-time contract monitors on the real classes (wrapped from outside) during real runs of the 17 runnable shipped configurations - a BOUNDED stand-in, labelled as such and never counted as proved",
        "level_text": "for each of the 19 shipped configurations the create/trash/activate/deactivate lists make 'pending events == fresh start' inductive over all reachable activation vectors (1200+ step obligations); pending == fresh and pool sizes additionally monitored at every event",
        "level_note": "trusted: tagger read sets / handler frames from an AST scan; multiset equality inside TagActivator is covered by the bounded monitor only",
    },
    "C07": {
        "technique": "run-time contract monitors on the real classes (wrapped from outside) during real runs of the 17 runnable shipped configurations - a BOUNDED stand-in, labelled as such and never counted as proved",
        "level_text": "bounded: continuity of every commit (new position = old position + old velocity x elapsed time mod L), non-decreasing event times, exactly one chain with the initial speed, positions in the box, identities and charges constant; checked on every committed event of every runnable shipped configuration up to the stated bound",
        "level_note": "this is a bounded check (4000 events per configuration in quick, 40000 in thorough), not a proof; deductive obligations for the functions behind this property are listed in DESIGN.md as work in progress",
    },
    "C11": {
        "technique": "run-time contract monitors on the real classes (wrapped from outside) during real runs of the 17 runnable shipped configurations - a BOUNDED stand-in, labelled as such and never counted as proved",
        "level_text": "bounded: after every activator update every relevant unit is recorded exactly once in the cell containing its position, the active unit only as active, occupant limits respected; checked on every committed event of every runnable shipped configuration up to the stated bound",
        "level_note": "this is a bounded check (4000 events per configuration in quick, 40000 in thorough), not a proof; deductive obligations for the functions behind this property are listed in DESIGN.md as work in progress",
    },
    "C12": {
        "technique": "run-time contract monitors on the real classes (wrapped from outside) during real runs of the 17 runnable shipped configurations - a BOUNDED stand-in, labelled as such and never counted as proved",
        "level_text": "bounded: at every commit the composite velocity equals the weighted sum of its point masses' velocities and its position advanced to the event time is their barycentre; checked on every committed event of every runnable shipped configuration up to the stated bound",
        "level_note": "this is a bounded check (4000 events per configuration in quick, 40000 in thorough), not a proof; deductive obligations for the functions behind this property are listed in DESIGN.md as work in progress",
    },
    "C13": {
        "technique": "bounded stand-in, exhaustive over all operation sequences up to a stated length on the real TreeStateHandler; plus run-time contract monitors on the real classes (wrapped from outside) during real runs of the 17 runnable shipped configurations - a BOUNDED stand-in, labelled as such and never counted as proved",
        "level_text": "bounded: the global state read back before a commit equals the one read after the previous commit (nothing but commits changes it); checked on every committed event of every runnable shipped configuration up to the stated bound",
        "level_note": "this is a bounded check (4000 events per configuration in quick, 40000 in thorough), not a proof; deductive obligations for the functions behind this property are listed in DESIGN.md as work in progress",
    },
    "C17": {
        "technique": "run-time contract monitors on the real classes (wrapped from outside) during real runs of the 17 runnable shipped configurations - a BOUNDED stand-in, labelled as such and never counted as proved",
        "level_text": "bounded: every written sample state has all moving units advanced to the sample time and the sample time is a multiple of the interval; checked on every committed event of every runnable shipped configuration up to the stated bound",
        "level_note": "this is a bounded check (4000 events per configuration in quick, 40000 in thorough), not a proof; deductive obligations for the functions behind this property are listed in DESIGN.md as work in progress",
    },
    "C03": {
        "technique": "contract-based deductive verification (model R): contracts on the derivative routines of the closed-form potentials "
                     "(Python and the C 1/r bound) against spec derivatives, z3/cvc5 with uninterpreted pow/sqrt/acos/sin + listed axioms; "
                     "spec derivatives tied to the spec energies by sympy; native counterexample search",
        "level_text": "InversePower (incl. derivative(): linear in speed, unique direction), DisplacedEvenPower, Lennard-Jones (sum of two "
                      "inverse-power contracts), Bending (three per-unit derivatives, sum identically zero) and the C 1/r bound are verified "
                      "for all separations, directions, charges and parameters; the Ewald lattice-sum clauses (convergence, alpha-independence, "
                      "periodicity) are NOT decided by this check",
        "level_note": "level other: the merged-image (Ewald) C code is not under contract; model R (machine arithmetic treated as mathematical); "
                      "real-analysis axioms for pow/sqrt, acos/sin uninterpreted; constructors (use **kwargs) out of reach: object invariants are preconditions; sympy trusted",
    },
    "C02": {
        "technique": "contract-based deductive verification (model R, z3/cvc5) of the displacement routines: hard spheres, the two vector inversion helpers, inverse-power (structure and infinite cases); native evaluation of the inversion identity E+(x) = budget on the real code for the clauses the solvers cannot decide",
        "level_text": "proved for all inputs: HardSpherePotential.displacement returns the FIRST contact time (>= 0, distance equals the diameter, no earlier overlap) and infinity exactly when discriminant/approach rule out a contact; the two displacement_until_new_norm_sq helpers; InversePowerPotential.potential and the infinite / frame clauses of its repulsive and attractive displacement; bounded (native, labelled): the inversion identity of inverse-power, Lennard-Jones and displaced-even-power displacements in the well-conditioned range",
        "level_note": "level other: the E+ identity clauses are evaluated natively on generated inputs only (nonlinear arithmetic over an uninterpreted power function is undecided by z3/cvc5); float totality down to denormal budgets, HardDipole, the periodic C displacement and CellBoundingPotential are not covered; model R; constructors are preconditions",
    },
    "C04": {
        "technique": "contract-based deductive verification of the confirmation routine of bounding-potential events (interface contracts on Potential.derivative and _exchange_velocity, the uniform draw as ghost input), z3/cvc5; bounded grid for the domination clause",
        "level_text": "proved for all inputs and the whole range of the draw: _calculate_out_state_of_two_leaf_unit_bounding_potential hands the velocity over iff the draw in [0, q_bound] lies below the true rate (probability max(0,q)/q_bound) and otherwise leaves every velocity and time stamp untouched (frame); bounded: true Ewald rate <= 1.5837-scaled nearest-image bound on a grid of the minimum-image cube",
        "level_note": "level other: domination is a transcendental supremum - checked on a 25^3 grid x signs x directions x 3 box lengths + local refinement only; the composite-object / cell-veto confirmation sites are not under contract",
    },
    "C10": {
        "technique": "run-time contract monitor (bounded stand-in): at every activator call the targets of the excluded-cells, surplus and cell-bounding / cell-veto families are recomputed from the real taggers and compared with the other relevant units",
        "level_text": "bounded: near + surplus + far targets form a partition of the other relevant units (nobody missed, nobody treated twice) at every committed event of the shipped cell-based configurations",
        "level_note": "bounded check (4000 events per configuration in quick); the factor-file clause (FactorTypeMap) is not covered; no deductive obligation yet",
    },
    "C16": {
        "technique": "bounded stand-in, exhaustive over a stated finite family of grids, evaluated natively on the real CuboidCells / CuboidPeriodicCells",
        "level_text": "bounded: for every grid of the family (dimension 1-3, cubic and cuboid boxes, 1-7 cells per side, 0-2 neighbour layers, periodic and not): extents abut without gap or overlap and cover [0, L) up to the last float, position_to_cell returns a cell containing the probe position (including the extreme floats at cell and box boundaries), neighbour / nearby / relative / translate relations equal digit arithmetic mod n",
        "level_note": "bounded, not a proof (itertools.product, struct-based float stepping and generators are outside the verifier's subset); a genuine defect found by this check was repaired (fix commit, see known_findings.txt)",
    },
    "C18": {
        "technique": "contract-based deductive verification of Walker.sample_cell / total_rate against the alias table's representation invariant (both random draws as ghost inputs), z3/cvc5; native bounded check that _build_table establishes the invariant",
        "level_text": "proved for every well-formed table and the whole range of both draws: the first share of the drawn row is returned iff the second draw is at most its mass (exact alias sampling, no IndexError), total_rate is the stored total; bounded (native): for generated rate vectors the table has n rows, every row sums to the mean, every item's shares sum to its rate; KNOWN FINDING: a zero-rate share is selected when the draw is exactly 0.0",
        "level_note": "level other: _build_table (list surgery with pop/append and in-place mutation) is checked natively on generated vectors only; the cell-veto handler clauses (event rate = total x speed, offset mapping) are not under contract",
    },
    "C19": {
        "technique": "bounded differential stand-in (no contract can state what dill does to an object graph): schedulers cloned with dill along seeded histories; dumps loaded the way resume.main() does and run on, compared with the uninterrupted run",
        "level_text": "bounded: every dill clone of HeapScheduler / ListScheduler taken along seeded protocol-respecting histories returns the same handlers in the same time order as its original (lazily deleted entries stay dead); every resumed dump of power_bounded_dump.ini, cell_veto.ini + dumping and dipole_motion.ini + dumping reproduces the subsequent committed global states bit for bit",
        "level_note": "bounded, not a proof: 480 clones and 3 x 2-3 dumps in quick; the custom __getstate__/__setstate__ pairs use __dict__ reflection outside the verifier's subset; the comparison 'run with dumping == run without dumping' is not included",
    },
}

NOT_APPLICABLE = {
    "C01": "limit in distribution over unbounded random histories: no pre/postcondition on any function expresses "
           "convergence of the empirical law to exp(-beta U); its decidable ingredients are claimed under C02-C06, C18",
    "C20": "quantifies over schedules of OS processes and pipes; contract-based deductive verification has no semantics "
           "for processes or blocking communication (model checking would be a different family)",
}
for _p in ["C%02d" % i for i in range(1, 21)]:
    NOT_APPLICABLE.setdefault(_p, WIP)
