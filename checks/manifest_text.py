"""Per-property wording for MANIFEST.json (kept next to plan.py so that the two stay in step)."""
WIP = "not claimed yet: the contracts for this property are still being built (see DESIGN.md §4 for the plan); no check is registered until its obligations are discharged on the pinned tree"

TEXT = {
    "C14": {
        "technique": "contract-based deductive verification: pre/postconditions on every Time method, VCs generated from "
                     "the real source by symbolic execution, discharged by z3/cvc5 (model R exact rationals; model F IEEE binary64)",
        "level_text": "every method of jellyfysh.base.time.Time is verified against its contract for all inputs: the six "
                      "comparisons against the exact rational order, __add__/from_float/__sub__/update against the abstract value",
        "level_note": "trusted: solver soundness; the encoder (conformance-checked against CPython); model R treats machine "
                      "arithmetic as mathematical for the structural clauses, NaN operands excluded by precondition",
    },
}

NOT_APPLICABLE = {
    "C01": "limit in distribution over unbounded random histories: no pre/postcondition on any function expresses "
           "convergence of the empirical law to exp(-beta U); its decidable ingredients are claimed under C02-C06, C18",
    "C20": "quantifies over schedules of OS processes and pipes; contract-based deductive verification has no semantics "
           "for processes or blocking communication (model checking would be a different family)",
}
for _p in ["C%02d" % i for i in range(1, 21)]:
    NOT_APPLICABLE.setdefault(_p, WIP)
