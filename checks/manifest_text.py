"""Per-property wording for MANIFEST.json (kept next to plan.py so that the two stay in step)."""
WIP = "not claimed yet: the contracts for this property are still being built (see DESIGN.md §4 for the plan); no check is registered until its obligations are discharged on the pinned tree"

TEXT = {
    "C14": {
        "technique": "contract-based deductive verification: pre/postconditions on every Time method, VCs generated from "
                     "the real source by symbolic execution, discharged by z3/cvc5 (model R exact rationals; model F IEEE binary64)",
        "level_text": "every method of jellyfysh.base.time.Time is verified against its contract for all inputs: the six "
                      "comparisons against the exact rational order, __add__/from_float/__sub__/update against the abstract value",
        "level_note": "trusted: solver soundness; the encoder (conformance-checked against CPython); model R treats machine "
                      "arithmetic as mathematical for the structural clauses, NaN operands excluded by precondition",
    },
    "C15": {
        "technique": "contract-based deductive verification: contracts + loop invariants on both PeriodicBoundaries classes, "
                     "VCs from the real source, z3/cvc5; range and idempotence bit-precisely in IEEE binary64, congruence in the reals",
        "level_text": "all six methods of HypercubicPeriodicBoundaries and HypercuboidPeriodicBoundaries verified against "
                      "contracts for every input: result in [0,L) / [-L/2,L/2], congruent to the input, idempotent, "
                      "list versions by loop invariant for any dimension; cubic = cuboid by a uniqueness lemma over the contracts",
        "level_note": "trusted: solver soundness; CPython float_rem encoding with fmod abstracted by its C99 properties; "
                      "congruence clause in model R (machine arithmetic treated as mathematical); settings' length tuples are not aliased by argument lists",
    },
    "C05": {
        "technique": "contract-based deductive verification: representation invariant + per-call contract on Lifting.insert, "
                     "loop invariants over prefix sums on the three get_active_identifier walks, interval-tiling lemmas; z3/cvc5 (model R)",
        "level_text": "insert and the three selection walks are verified for all table sizes, insertion orders and the whole "
                      "closed range of the draws: the returned unit's cumulative interval contains the walk position, only "
                      "strictly negative derivatives are selectable, frames proved; the flow balance follows by the tiling lemmas",
        "level_note": "trusted: solver soundness; model R (machine arithmetic treated as mathematical); inductive consequences "
                      "psum-nonneg/psum-frame of the prefix-sum axioms; summation of the tiling step over the positive entries is meta-level induction",
    },
    "C06": {
        "technique": "contract-based deductive verification of the real C and Python sources: ACSL-style contracts and loop "
                     "invariants on heap.c (pycparser front end: bounds / null / unsigned no-wrap obligations at every access), "
                     "contracts on HeapScheduler and ListScheduler with the cffi calls checked against the C contracts; z3/cvc5",
        "level_text": "all seven functions of heap.c and the push/trash/get methods of both schedulers are verified for every heap "
                      "size (incl. reallocation and counter wrap-around): heap order with quotient-then-remainder comparison, returned "
                      "entry live and minimal, empty scheduler raises, infinite times never stored / never first, no invalid memory "
                      "access, no unsigned wrap; exact multiset preservation of the C array is NOT claimed (weaker clauses: new entry "
                      "present, nothing of an absent handler invented)",
        "level_note": "trusted: solver soundness; cffi glue (handles, OverflowError, callback binding); realloc/calloc models; model R for "
                      "times (comparisons only); induction schema behind the root-minimality axiom (its step is proved); "
                      "HeapScheduler.__getstate__/__setstate__ are outside the subset (see C19)",
    },
    "C08": {
        "technique": "contract-based: wiring lemma (inductiveness VC per shipped .ini from the parsed tagger lists and AST-derived handler/tagger frames, discharged by z3) + run-time contract monitors on the real classes (wrapped from outside) during real runs of the 17 runnable shipped configurations - a BOUNDED stand-in, labelled as such and never counted as proved",
        "level_text": "for each of the 19 shipped configurations: no candidate event survives a commit that changes the motion of a unit it depends on (every motion-changing handler trashes every activated interaction tagger; proved as part of the inductive invariant W); the bookkeeping of TagActivator itself is monitored, not proved",
        "level_note": "trusted: frames are derived syntactically (stores to .velocity / velocity-changing helpers reachable from send_out_state); TagActivator / scheduler protocol covered by the bounded monitor only (4000 events per configuration in quick); harness-generated configurations are not covered",
    },
    "C09": {
        "technique": "contract-based: wiring lemma (inductiveness VC per shipped .ini, z3) + run-time contract monitors on the real classes (wrapped from outside) during real runs of the 17 runnable shipped configurations - a BOUNDED stand-in, labelled as such and never counted as proved",
        "level_text": "for each of the 19 shipped configurations the create/trash/activate/deactivate lists make 'pending events == fresh start' inductive over all reachable activation vectors (1200+ step obligations); pending == fresh and pool sizes additionally monitored at every event",
        "level_note": "trusted: tagger read sets / handler frames from an AST scan; multiset equality inside TagActivator is covered by the bounded monitor only",
    },
    "C07": {
        "technique": "run-time contract monitors on the real classes (wrapped from outside) during real runs of the 17 runnable shipped configurations - a BOUNDED stand-in, labelled as such and never counted as proved",
        "level_text": "bounded: continuity of every commit (new position = old position + old velocity x elapsed time mod L), non-decreasing event times, exactly one chain with the initial speed, positions in the box, identities and charges constant; checked on every committed event of every runnable shipped configuration up to the stated bound",
        "level_note": "this is a bounded check (4000 events per configuration in quick, 40000 in thorough), not a proof; deductive obligations for the functions behind this property are listed in DESIGN.md as work in progress",
    },
    "C11": {
        "technique": "run-time contract monitors on the real classes (wrapped from outside) during real runs of the 17 runnable shipped configurations - a BOUNDED stand-in, labelled as such and never counted as proved",
        "level_text": "bounded: after every activator update every relevant unit is recorded exactly once in the cell containing its position, the active unit only as active, occupant limits respected; checked on every committed event of every runnable shipped configuration up to the stated bound",
        "level_note": "this is a bounded check (4000 events per configuration in quick, 40000 in thorough), not a proof; deductive obligations for the functions behind this property are listed in DESIGN.md as work in progress",
    },
    "C12": {
        "technique": "run-time contract monitors on the real classes (wrapped from outside) during real runs of the 17 runnable shipped configurations - a BOUNDED stand-in, labelled as such and never counted as proved",
        "level_text": "bounded: at every commit the composite velocity equals the weighted sum of its point masses' velocities and its position advanced to the event time is their barycentre; checked on every committed event of every runnable shipped configuration up to the stated bound",
        "level_note": "this is a bounded check (4000 events per configuration in quick, 40000 in thorough), not a proof; deductive obligations for the functions behind this property are listed in DESIGN.md as work in progress",
    },
    "C13": {
        "technique": "run-time contract monitors on the real classes (wrapped from outside) during real runs of the 17 runnable shipped configurations - a BOUNDED stand-in, labelled as such and never counted as proved",
        "level_text": "bounded: the global state read back before a commit equals the one read after the previous commit (nothing but commits changes it); checked on every committed event of every runnable shipped configuration up to the stated bound",
        "level_note": "this is a bounded check (4000 events per configuration in quick, 40000 in thorough), not a proof; deductive obligations for the functions behind this property are listed in DESIGN.md as work in progress",
    },
    "C17": {
        "technique": "run-time contract monitors on the real classes (wrapped from outside) during real runs of the 17 runnable shipped configurations - a BOUNDED stand-in, labelled as such and never counted as proved",
        "level_text": "bounded: every written sample state has all moving units advanced to the sample time and the sample time is a multiple of the interval; checked on every committed event of every runnable shipped configuration up to the stated bound",
        "level_note": "this is a bounded check (4000 events per configuration in quick, 40000 in thorough), not a proof; deductive obligations for the functions behind this property are listed in DESIGN.md as work in progress",
    },
    "C03": {
        "technique": "contract-based deductive verification (model R): contracts on the derivative routines of the closed-form potentials "
                     "(Python and the C 1/r bound) against spec derivatives, z3/cvc5 with uninterpreted pow/sqrt/acos/sin + listed axioms; "
                     "spec derivatives tied to the spec energies by sympy; native counterexample search",
        "level_text": "InversePower (incl. derivative(): linear in speed, unique direction), DisplacedEvenPower, Lennard-Jones (sum of two "
                      "inverse-power contracts), Bending (three per-unit derivatives, sum identically zero) and the C 1/r bound are verified "
                      "for all separations, directions, charges and parameters; the Ewald lattice-sum clauses (convergence, alpha-independence, "
                      "periodicity) are NOT decided by this check",
        "level_note": "level other: the merged-image (Ewald) C code is not under contract; model R (machine arithmetic treated as mathematical); "
                      "real-analysis axioms for pow/sqrt, acos/sin uninterpreted; constructors (use **kwargs) out of reach: object invariants are preconditions; sympy trusted",
    },
}

NOT_APPLICABLE = {
    "C01": "limit in distribution over unbounded random histories: no pre/postcondition on any function expresses "
           "convergence of the empirical law to exp(-beta U); its decidable ingredients are claimed under C02-C06, C18",
    "C20": "quantifies over schedules of OS processes and pipes; contract-based deductive verification has no semantics "
           "for processes or blocking communication (model checking would be a different family)",
}
for _p in ["C%02d" % i for i in range(1, 21)]:
    NOT_APPLICABLE.setdefault(_p, WIP)
