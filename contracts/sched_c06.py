"""C06 (Python side) - HeapScheduler and ListScheduler.  cffi calls into heap.c are checked against the C contracts of
contracts/heap_c06.py (caller against callee contract, across the language boundary)."""
from pyvc.api import cls, spec, contract, LoopSpec
from pyvc.core import REG
import contracts.heap_c06   # noqa: the callee contracts
import contracts.time_c14   # noqa: Time

REG.extern_c["jellyfysh.scheduler.heap_scheduler._heap"] = "jellyfysh/scheduler/heap_scheduler/heap.c"
H = "jellyfysh.scheduler.heap_scheduler.heap_scheduler:HeapScheduler."
cls("HeapScheduler", _heap="opt[Heap]", _minimal_valid_counter="dict[any,int]", _last_returned_event="tuple[Time,any]",
    _allocated_memory_bytes="int", _scheduler_handle="any", _event_handler_handles="dict[any,any]",
    _warn_on_equal_event_times="bool", _logger_enabled_for_debug="bool")

spec("mvc(s, h)", "ite(has(s._minimal_valid_counter, h), get(s._minimal_valid_counter, h), 0)")
spec("time_ok(t)", "fin(t) or (isinf(t._quotient) and t._quotient > 0 and isinf(t._remainder) and t._remainder > 0)")
spec("handles_ok(s)", "forall(lambda k: implies(has(s._event_handler_handles, k), same(get(s._event_handler_handles, k), k)))")
CFFI = ["cffi: ffi.new_handle / ffi.from_handle are inverse (a handle is identified with its object); from_handle(NULL) "
        "raises RuntimeError; an int that does not fit `uint` raises OverflowError; extern \"Python\" callback "
        "event_valid_callback is HeapScheduler.event_valid_callback of the scheduler handle"]

contract(H + "event_valid_callback", "C06", model="R", params={"event_handler_handle": "any", "counter": "int"},
         returns="bool",
         requires=["event_handler_handle is not None", "has(self._minimal_valid_counter, event_handler_handle)"],
         ensures=["result == (get(self._minimal_valid_counter, event_handler_handle) > counter)"],
         canary="result", trusted=CFFI,
         note="an entry is dead (to be removed lazily) iff its stored counter is below the handler's minimal valid counter")

contract(H + "trash_event", "C06", model="R", params={"event_handler": "any"},
         modifies=["dictof(self._minimal_valid_counter)"],
         ensures=["has(self._minimal_valid_counter, event_handler)",
                  "get(self._minimal_valid_counter, event_handler) == old(mvc(self, event_handler)) + 1",
                  "forall(lambda k: implies(not same(k, event_handler), has(self._minimal_valid_counter, k) == "
                  "old(has(self._minimal_valid_counter, k)) and get(self._minimal_valid_counter, k) == "
                  "old(get(self._minimal_valid_counter, k))))"],
         canary="get(self._minimal_valid_counter, event_handler) == 0",
         note="every stored entry of the handler becomes dead; other handlers' validity is untouched (frame)")

contract(H + "push_event", "C06", model="R", params={"time": "Time", "event_handler": "any"},
         inline=["__lt__"],
         requires=["self._heap is not None", "wf(self._heap)", "self._heap.size <= 2**30", "time_ok(time)",
                   "event_handler is not None", "handles_ok(self)",
                   "not same(self._minimal_valid_counter, self._event_handler_handles)",
                   "implies(has(self._minimal_valid_counter, event_handler), get(self._minimal_valid_counter, event_handler) >= 0)",
                   "self._allocated_memory_bytes >= 0"],
         modifies=["self._heap.length", "self._heap.size", "self._heap.heap_entries", "contents(self._heap.heap_entries)",
                   "dictof(self._minimal_valid_counter)", "dictof(self._event_handler_handles)",
                   "self._allocated_memory_bytes"],
         may_raise={"MemoryError": ["True"]},
         ensures=[
             # an infinite candidate time is never stored
             "implies(isinf(time._quotient), self._heap.length == old(self._heap.length) and "
             "same(self._heap.heap_entries, old(self._heap.heap_entries)))",
             # a finite one is stored with the handler's current minimal valid counter, i.e. as a live entry
             "implies(not isinf(time._quotient), self._allocated_memory_bytes == 2**64 - 1 or (wf(self._heap) and "
             "has(self._minimal_valid_counter, event_handler) and "
             "exists(1, self._heap.length, lambda p: E(self._heap, p).time_quotient == time._quotient and "
             "E(self._heap, p).time_remainder == time._remainder and same(E(self._heap, p).event_handler, event_handler) "
             "and E(self._heap, p).counter == get(self._minimal_valid_counter, event_handler))))",
             # validity counters of other handlers are untouched; the handler's own counter only changes on wrap-around
             "forall(lambda k: implies(not same(k, event_handler), has(self._minimal_valid_counter, k) == "
             "old(has(self._minimal_valid_counter, k)) and get(self._minimal_valid_counter, k) == "
             "old(get(self._minimal_valid_counter, k))))",
             "implies(not isinf(time._quotient) and old(mvc(self, event_handler)) <= 2**32 - 1, "
             "mvc(self, event_handler) == old(mvc(self, event_handler)))",
             "implies(not isinf(time._quotient) and old(mvc(self, event_handler)) > 2**32 - 1, mvc(self, event_handler) == 0)",
             "handles_ok(self)",
         ],
         canary="self._heap.length == old(self._heap.length)", trusted=CFFI,
         note="includes the counter wrap-around branch (OverflowError -> delete_events -> counter reset)")
