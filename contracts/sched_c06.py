"""C06 (Python side) - HeapScheduler and ListScheduler.  cffi calls into heap.c are checked against the C contracts of
contracts/heap_c06.py (caller against callee contract, across the language boundary)."""
from pyvc.api import cls, spec, contract, LoopSpec
from pyvc.core import REG
import contracts.heap_c06   # noqa: the callee contracts
import contracts.time_c14   # noqa: Time

REG.extern_c["jellyfysh.scheduler.heap_scheduler._heap"] = "jellyfysh/scheduler/heap_scheduler/heap.c"
H = "jellyfysh.scheduler.heap_scheduler.heap_scheduler:HeapScheduler."
cls("HeapScheduler", _heap="opt[Heap]", _minimal_valid_counter="dict[any,int]", _last_returned_event="tuple[Time,any]",
    _allocated_memory_bytes="int", _scheduler_handle="any", _event_handler_handles="dict[any,any]",
    _warn_on_equal_event_times="bool", _logger_enabled_for_debug="bool")

spec("mvc(s, h)", "ite(has(s._minimal_valid_counter, h), get(s._minimal_valid_counter, h), 0)")
spec("time_ok(t)", "fin(t) or (isinf(t._quotient) and t._quotient > 0 and isinf(t._remainder) and t._remainder > 0)")
spec("handles_ok(s)", "forall(lambda k: implies(has(s._event_handler_handles, k), same(get(s._event_handler_handles, k), k)))")
CFFI = ["cffi: ffi.new_handle / ffi.from_handle are inverse (a handle is identified with its object); from_handle(NULL) "
        "raises RuntimeError; an int that does not fit `uint` raises OverflowError; extern \"Python\" callback "
        "event_valid_callback is HeapScheduler.event_valid_callback of the scheduler handle"]

contract(H + "event_valid_callback", "C06", model="R", native_search=False, params={"event_handler_handle": "any", "counter": "int"},
         returns="bool",
         requires=["event_handler_handle is not None", "has(self._minimal_valid_counter, event_handler_handle)"],
         ensures=["result == (get(self._minimal_valid_counter, event_handler_handle) > counter)"],
         canary="result", trusted=CFFI,
         note="an entry is dead (to be removed lazily) iff its stored counter is below the handler's minimal valid counter")

contract(H + "trash_event", "C06", model="R", native_search=False, params={"event_handler": "any"},
         modifies=["dictof(self._minimal_valid_counter)"],
         ensures=["has(self._minimal_valid_counter, event_handler)",
                  "get(self._minimal_valid_counter, event_handler) == old(mvc(self, event_handler)) + 1",
                  "forall(lambda k: implies(not same(k, event_handler), has(self._minimal_valid_counter, k) == "
                  "old(has(self._minimal_valid_counter, k)) and get(self._minimal_valid_counter, k) == "
                  "old(get(self._minimal_valid_counter, k))))"],
         canary="get(self._minimal_valid_counter, event_handler) == 0",
         note="every stored entry of the handler becomes dead; other handlers' validity is untouched (frame)")

contract(H + "push_event", "C06", model="R", native_search=False, params={"time": "Time", "event_handler": "any"},
         inline=["__lt__", "__eq__", "__gt__", "__ge__", "__le__", "__ne__"],
         requires=["self._heap is not None", "wf(self._heap)", "self._heap.size <= 2**30", "time_ok(time)",
                   "event_handler is not None", "handles_ok(self)",
                   "not same(self._minimal_valid_counter, self._event_handler_handles)",
                   "implies(has(self._minimal_valid_counter, event_handler), get(self._minimal_valid_counter, event_handler) >= 0)",
                   "self._allocated_memory_bytes >= 0"],
         modifies=["self._heap.length", "self._heap.size", "self._heap.heap_entries", "contents(self._heap.heap_entries)",
                   "dictof(self._minimal_valid_counter)", "dictof(self._event_handler_handles)",
                   "self._allocated_memory_bytes"],
         may_raise={"MemoryError": ["True"]},
         ensures=[
             # an infinite candidate time is never stored
             "implies(isinf(time._quotient), self._heap.length == old(self._heap.length) and "
             "same(self._heap.heap_entries, old(self._heap.heap_entries)))",
             # a finite one is stored with the handler's current minimal valid counter, i.e. as a live entry
             "implies(not isinf(time._quotient), self._allocated_memory_bytes == 2**64 - 1 or (wf(self._heap) and "
             "has(self._minimal_valid_counter, event_handler) and "
             "exists(1, self._heap.length, lambda p: E(self._heap, p).time_quotient == time._quotient and "
             "E(self._heap, p).time_remainder == time._remainder and same(E(self._heap, p).event_handler, event_handler) "
             "and E(self._heap, p).counter == get(self._minimal_valid_counter, event_handler))))",
             # validity counters of other handlers are untouched; the handler's own counter only changes on wrap-around
             "forall(lambda k: implies(not same(k, event_handler), has(self._minimal_valid_counter, k) == "
             "old(has(self._minimal_valid_counter, k)) and get(self._minimal_valid_counter, k) == "
             "old(get(self._minimal_valid_counter, k))))",
             "implies(not isinf(time._quotient) and old(mvc(self, event_handler)) <= 2**32 - 1, "
             "mvc(self, event_handler) == old(mvc(self, event_handler)))",
             "implies(not isinf(time._quotient) and old(mvc(self, event_handler)) > 2**32 - 1, mvc(self, event_handler) == 0)",
             "handles_ok(self)",
             # after a counter wrap-around no older entry of the handler can be resurrected: the only stored entry of
             # the handler is the one just pushed
             "implies(not isinf(time._quotient) and old(mvc(self, event_handler)) > 2**32 - 1 and "
             "self._allocated_memory_bytes != 2**64 - 1, forall(1, self._heap.length, lambda j: implies("
             "same(E(self._heap, j).event_handler, event_handler), E(self._heap, j).time_quotient == time._quotient and "
             "E(self._heap, j).time_remainder == time._remainder and E(self._heap, j).counter == 0)))",
         ],
         ghost={"args": {"insert": {"ghost_h": "event_handler"}}},
         canary="self._heap.length == old(self._heap.length)", trusted=CFFI,
         note="includes the counter wrap-around branch (OverflowError -> delete_events -> counter reset)")

# every stored entry's handler has a validity counter (established by push_event, preserved by everything else)
spec("entries_known(s)", "forall(1, s._heap.length, lambda j: has(s._minimal_valid_counter, E(s._heap, j).event_handler))")
CALLBACK = ("forall(lambda h, c: implies(has(self._minimal_valid_counter, h), "
            "(call_event_valid_callback(self._scheduler_handle, h, c) != 0) == (get(self._minimal_valid_counter, h) > c)))")

contract(H + "get_succeeding_event", "C06", model="R", native_search=False, returns="any",
         inline=["_event_time_increasing", "__lt__", "__eq__", "__gt__", "__ge__", "__le__", "__ne__"],
         requires=["self._heap is not None", "wf(self._heap)", "entries_known(self)",
                   "not has(self._minimal_valid_counter, None)",
                   "time_or_minus_inf(self._last_returned_event[0])"],
         assume=[CALLBACK],
         modifies=["self._heap.length", "contents(self._heap.heap_entries)", "self._last_returned_event"],
         may_raise={"SchedulerError": [
             # an error is raised only if no live entry is left, or if time would run backwards
             "self._heap.length <= 1 or E(self._heap, 1).time_quotient < old(self._last_returned_event[0]._quotient) or "
             "(E(self._heap, 1).time_quotient == old(self._last_returned_event[0]._quotient) and "
             "E(self._heap, 1).time_remainder < old(self._last_returned_event[0]._remainder))"]},
         ensures=[
             "wf(self._heap) and self._heap.length > 1",
             "same(result, E(self._heap, 1).event_handler)",
             # the returned event is live ...
             "E(self._heap, 1).counter >= get(self._minimal_valid_counter, result)",
             # ... and minimal among all stored entries (quotient first, then remainder)
             "forall(1, self._heap.length, lambda j: not lt(E(self._heap, j), E(self._heap, 1)))",
             "self._last_returned_event[0]._quotient == E(self._heap, 1).time_quotient and "
             "self._last_returned_event[0]._remainder == E(self._heap, 1).time_remainder",
         ],
         ghost={"args": {"root": {"ghost_d": "self._minimal_valid_counter"}}},
         canary="self._heap.length == 2", trusted=CFFI,
         note="uses the contracts root and root#minimal of heap.c; the callback is tied to event_valid_callback (cffi)")
spec("time_or_minus_inf(t)", "t is not None")
spec("old_last(t)", "t")

# ------------------------------------------------------------------------------------------ ListScheduler
LS = "jellyfysh.scheduler.list_scheduler:ListScheduler."
cls("_Element", time="Time", event_handler="any")
cls("ListScheduler", _times="list[_Element]", _last_returned_event="tuple[Time,any]", _warn_on_equal_event_times="bool",
    _logger_enabled_for_debug="bool")
spec("T(s, j)", "s._times[j]")

contract("jellyfysh.scheduler.list_scheduler:_Element.__eq__", "C06", model="R", params={"event_handler": "any"},
         returns="bool", ensures=["result == same(self.event_handler, event_handler)"], canary="result",
         note="elements are matched by the identity of their event handler")

contract(LS + "push_event", "C06", model="R", params={"time": "Time", "event_handler": "any"},
         modifies=["elems(self._times)"],
         ensures=["len(self._times) == old(len(self._times)) + 1",
                  "same(T(self, len(self._times) - 1).time, time) and same(T(self, len(self._times) - 1).event_handler, event_handler)",
                  "fresh(T(self, len(self._times) - 1))",
                  "forall(0, old(len(self._times)), lambda j: same(T(self, j), old(T(self, j))))"],
         canary="len(self._times) == 1")

contract(LS + "trash_event", "C06", model="R", params={"event_handler": "any"},
         requires=["forall(0, len(self._times), lambda j: T(self, j) is not None)"],
         modifies=["elems(self._times)"],
         raises={"SchedulerError": "not exists(0, len(self._times), lambda j: same(T(self, j).event_handler, event_handler))"},
         ensures=[
             "len(self._times) == old(len(self._times)) - 1",
             # exactly the first element of that handler is removed, the order of the others is kept
             "exists(0, old(len(self._times)), lambda i: same(old(T(self, i)).event_handler, event_handler) and "
             "forall(0, i, lambda j: not same(old(T(self, j)).event_handler, event_handler) and same(T(self, j), old(T(self, j)))) and "
             "forall(i, len(self._times), lambda j: same(T(self, j), old(T(self, j + 1)))))"],
         canary="len(self._times) == 0")

contract(LS + "get_succeeding_event", "C06", model="R", returns="any",
         inline=["_event_time_increasing", "__lt__", "__eq__", "__gt__", "__ge__", "__le__", "__ne__"],
         requires=["forall(0, len(self._times), lambda j: T(self, j) is not None and T(self, j).time is not None)",
                   "self._last_returned_event[0] is not None"],
         modifies=["self._last_returned_event"],
         may_raise={"SchedulerError": [
             "len(self._times) == 0 or exists(0, len(self._times), lambda i: "
             "lex_lt(T(self, i).time, old(self._last_returned_event[0])))"]},
         ensures=[
             "len(self._times) > 0",
             # the handler of a stored event whose time no other stored event undercuts (quotient, then remainder)
             "exists(0, len(self._times), lambda i: same(result, T(self, i).event_handler) and "
             "forall(0, len(self._times), lambda j: not lex_lt(T(self, j).time, T(self, i).time)) and "
             "same(self._last_returned_event[0], T(self, i).time))"],
         canary="len(self._times) == 1",
         note="infinite times are stored but lex_lt(finite, inf): never returned before a finite one")
