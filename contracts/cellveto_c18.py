"""C18 (second sentence) - the cell-veto handler: events are proposed at (total rate of the walker) x (charge factor) x
speed, the target cell is the ACTIVE cell translated by the sampled offset, and the bound recorded for confirmation is
the one stored for that offset, direction of motion and sign.  Model R.

The cell system, the estimator and the tree helpers appear through interface contracts (assumed; the cell relations
themselves are C16's bounded harness); Walker.sample_cell / total_rate are the verified contracts of walker_c18."""
from pyvc.api import cls, spec, contract, ufunc, module_global, LoopSpec
import contracts.thinning_c04   # noqa  (Unit, Node)
import contracts.walker_c18     # noqa
import contracts.handlers_c07   # noqa  (setting globals, Time helpers)

H = "jellyfysh.event_handler.abstracts.cell_veto_event_handler:CellVetoEventHandler."
cls("Cell", _identifier="any")
cls("PeriodicCells")
cls("Estimator")
cls("CellVetoEventHandler", _cells="PeriodicCells", _estimator="Estimator", _cell_level="int",
    _derivative_bounds="dict[Cell,list[tuple[float,float]]]", _charge_of_unit="callable[charge_of_unit]",
    _upper_bound_walker="list[Walker]", _lower_bound_walker="list[Walker]", _bounding_event_rate="float",
    _event_time="Time", _state="list[Node]", _leaf_cnodes="list[Node]", _leaf_units="list[Unit]",
    _active_leaf_unit="Unit", _active_leaf_unit_index="int")
module_global("jellyfysh.setting", "beta", "float", ["beta > 0"])

ufunc("cell_of", ["any", "any"], "any")                 # (cell system, position list) -> cell
ufunc("cell_translate", ["any", "any", "any"], "any")   # (cell system, cell, offset cell) -> cell
ufunc("charge_factor", ["any", "float"], "float")
contract("jellyfysh.activator.internal_state.cell_occupancy.cells.cells:Cells.position_to_cell", "C18", model="R",
         assume_only=True, params={"position": "list[float]"}, returns="Cell", allocates=False,
         ensures=["same(result, cell_of(self, position))", "result is not None"],
         note="interface (C16 decides it for the cuboid grids)")
contract("jellyfysh.activator.internal_state.cell_occupancy.cells.periodic_cells:PeriodicCells.translate", "C18",
         model="R", assume_only=True, params={"cell": "Cell", "relative_cell": "Cell"}, returns="Cell", allocates=False,
         ensures=["same(result, cell_translate(self, cell, relative_cell))"],
         note="interface: the torus translation (C16 decides translate / relative_cell for the cuboid grids)")
ufunc("cell_relative", ["any", "any", "any"], "any")
contract("jellyfysh.activator.internal_state.cell_occupancy.cells.periodic_cells:PeriodicCells.relative_cell", "C18",
         model="R", assume_only=True, params={"cell": "Cell", "reference_cell": "Cell"}, returns="Cell", allocates=False,
         ensures=["same(result, cell_relative(self, cell, reference_cell))"],
         note="interface: the offset of a cell from a reference cell - a different function from translate")
contract("jellyfysh.estimator.estimator:Estimator.charge_correction_factor", "C18", model="R", assume_only=True,
         params={"active_charges": "float", "target_charges": "any"}, returns="float", allocates=False,
         ensures=["result == charge_factor(self, active_charges)"])
L = "jellyfysh.event_handler.abstracts.abstracts:"
contract(L + "LeavesEventHandler._construct_leaf_cnodes", "C18", model="R", assume_only=True,
         modifies=["self._leaf_cnodes", "self._leaf_units"],
         ensures=["len(self._leaf_cnodes) >= 1", "len(self._leaf_units) == len(self._leaf_cnodes)",
                  "self._leaf_cnodes[0] is not None",
                  # the leaves belong to the branches handed in: they existed before the handler was called
                  "allocated_before(self._leaf_cnodes[0])",
                  "reaches(self._leaf_cnodes[0], self._cell_level)"],
         note="interface: the leaves of the branch(es) of the in-state")
contract(L + "SingleActiveLeafUnitEventHandler._extract_active_leaf_unit", "C18", model="R", assume_only=True,
         modifies=["self._active_leaf_unit", "self._active_leaf_unit_index"],
         ensures=["self._active_leaf_unit is not None", "self._active_leaf_unit.velocity is not None",
                  "len(self._active_leaf_unit.velocity) == 3", "self._active_leaf_unit.time_stamp is not None",
                  "fin(self._active_leaf_unit.time_stamp)"],
         note="interface: the single leaf unit with a velocity - PROVED from the body by the contract "
              "_extract_active_leaf_unit#body in handlers_c07 (unique leaf with a velocity, AssertionError otherwise); the "
              "remaining clauses (three components, normalised time stamp) are C07's invariant of every moving unit")
contract(L + "BasicEventHandler._time_slice_all_units_in_state", "C18", model="R", assume_only=True,
         modifies=["allcontents(float)", "ALL._quotient", "ALL._remainder"],
         ensures=["val(self._event_time) == old(val(self._event_time))"],
         note="interface: _time_slice_unit (verified, C07) on every unit of the in-state: positions and time stamps of "
              "units; the handler's own event time is not a unit's time stamp")

ufunc("charge_of_unit", ["any", "any"], "float")     # the callable stored by initialize(): 1.0 or unit.charge[name]
# the ancestor-or-self of a node on the cell level; stated for branches that reach the cell level within THREE parent
# steps (JeLLyFysh's trees are two or three levels deep) - deeper branches are outside this contract
spec("lvl(n, L)", "len(n.value.identifier) <= L")
spec("cell_anc(n, L)", "ite(lvl(n, L), n, ite(lvl(n.parent, L), n.parent, ite(lvl(n.parent.parent, L), n.parent.parent, "
                       "n.parent.parent.parent)))")
spec("reaches(n, L)", "n is not None and (lvl(n, L) or (n.parent is not None and (lvl(n.parent, L) or "
                      "(n.parent.parent is not None and (lvl(n.parent.parent, L) or "
                      "(n.parent.parent.parent is not None and lvl(n.parent.parent.parent, L)))))))")
spec("walkers_ok(ws)", "len(ws) == 3 and forall(0, 3, lambda d: ws[d] is not None and table_ok(ws[d]) and ws[d]._total_rate > 0)")
spec("dir_of(v)", "ite(v[0] != 0, 0, ite(v[1] != 0, 1, 2))")
spec("q_of(h, u)", "charge_factor(h._estimator, charge_of_unit(h, u))")
spec("walker_of(h, u)", "ite(q_of(h, u) > 0, h._upper_bound_walker[dir_of(u.velocity)], h._lower_bound_walker[dir_of(u.velocity)])")
# (total rate of the relevant walker) x |charge factor| x speed, written as the two sign cases
spec("prop_rate(h, u)", "ite(q_of(h, u) > 0, walker_of(h, u)._total_rate * q_of(h, u) * u.velocity[dir_of(u.velocity)], "
                        "walker_of(h, u)._total_rate * (q_of(h, u) * -1.0) * u.velocity[dir_of(u.velocity)])")
spec("sampled(w, i, x)", "ite(x <= w._table[i][0].rate, w._table[i][0].item, w._table[i][1].item)")
contract(H + "send_event_time", ["C18", "C10"], model="R", params={"in_state": "list[Node]"}, returns="tuple[Time,list[Cell]]",
         globals=["beta"],
         requires=["walkers_ok(self._upper_bound_walker)", "walkers_ok(self._lower_bound_walker)",
                   "self._cells is not None", "self._estimator is not None", "self._derivative_bounds is not None",
                   # every offset cell with stored bounds has its three (upper, -lower) pairs
                   "forall(lambda c: implies(has(self._derivative_bounds, obj(c, 'Cell')), "
                   "len(get(self._derivative_bounds, obj(c, 'Cell'))) == 3))"],
         inline=["_store_in_state"],
         loops={0: LoopSpec(invariant=["allocated_before(relevant_cnode)",
                                       "reaches(relevant_cnode, self._cell_level)",
                                       "same(cell_anc(relevant_cnode, self._cell_level), "
                                       "cell_anc(self._leaf_cnodes[0], self._cell_level))"], modifies=[])},
         modifies=["self._state", "self._leaf_cnodes", "self._leaf_units", "self._active_leaf_unit",
                   "self._active_leaf_unit_index", "self._bounding_event_rate", "self._event_time",
                   "allcontents(float)", "ALL._quotient", "ALL._remainder"],
         may_raise={"AssertionError": [], "KeyError": []},
         ensures=[
             "len(result[1]) == 1",
             # the proposed target is the ACTIVE cell (cell of the active unit's ancestor on the cell level, before time
             # slicing) translated by the sampled offset
             "let(lambda u, leaf, t: old(same(t, cell_translate(self._cells, "
             "cell_of(self._cells, cell_anc(leaf, self._cell_level).value.position), sampled(walker_of(self, u), draw0, draw1)))), "
             "self._active_leaf_unit, self._leaf_cnodes[0], result[1][0])",
             # the bounding event RATE kept for the confirmation step (compared there with the true rate per unit time):
             # the bound stored for that offset, direction and sign, times |charge factor|, times the SPEED - the rate at
             # which this target cell is proposed (C04: acceptance = true rate / rate of proposal)
             "let(lambda u, r: old(r == get(self._derivative_bounds, sampled(walker_of(self, u), draw0, draw1))"
             "[dir_of(u.velocity)][ite(q_of(self, u) > 0, 0, 1)] * abs(q_of(self, u)) * u.velocity[dir_of(u.velocity)]), "
             "self._active_leaf_unit, self._bounding_event_rate)",
             "self._bounding_event_rate > 0",
             # events are proposed at rate beta * (total rate of the walker) * |charge factor| * speed
             "let(lambda u, tv: old(implies(not isinf(draw2 / prop_rate(self, u)), "
             "tv == val(u.time_stamp) + draw2 / prop_rate(self, u))), self._active_leaf_unit, val(result[0]))"],
         native_search=False,
         note="C18.2: rate, offset mapping, stored bound; draw0/draw1 are the walker's two draws, draw2 the exponential")
