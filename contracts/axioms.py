"""Every uninterpreted spec function and its defining axioms, in one place (the T items are listed in the evidence)."""
from pyvc.api import ufunc, axiom

# prefix sums over the contents of a list of floats:  psum(a, j) = a[0] + ... + a[j-1]
ufunc("psum", ["arr[float]", "int"], "float")
axiom("psum-base", {"a": "arr[float]"}, "psum(a, 0) == 0")
axiom("psum-step", {"a": "arr[float]", "j": "int"}, "implies(j >= 0, psum(a, j + 1) == psum(a, j) + a[j])")
# inductive consequences of the two defining axioms (each follows by induction on n; base and step are the
# lemma units "psum-nonneg-*" / "psum-frame-*" below, the induction schema itself is meta-level)
axiom("psum-nonneg", {"a": "arr[float]", "n": "int"},
      "implies(n >= 0 and forall(0, n, lambda j: a[j] >= 0), psum(a, n) >= 0)")
axiom("psum-frame", {"a": "arr[float]", "b": "arr[float]", "n": "int"},
      "implies(n >= 0 and forall(0, n, lambda j: a[j] == b[j]), psum(a, n) == psum(b, n))")
PSUM = ["psum-base", "psum-step", "psum-nonneg", "psum-frame"]
NATIVE = {"psum": lambda a, j: sum(a[:int(j)])}
