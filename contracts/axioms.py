"""Every uninterpreted spec function and its defining axioms, in one place (the T items are listed in the evidence)."""
from pyvc.api import ufunc, axiom

# prefix sums over the contents of a list of floats:  psum(a, j) = a[0] + ... + a[j-1]
ufunc("psum", ["arr[float]", "int"], "float")
axiom("psum-base", {"a": "arr[float]"}, "psum(a, 0) == 0")
axiom("psum-step", {"a": "arr[float]", "j": "int"}, "implies(j >= 0, psum(a, j + 1) == psum(a, j) + a[j])")
# inductive consequences of the two defining axioms (each follows by induction on n; base and step are the
# lemma units "psum-nonneg-*" / "psum-frame-*" below, the induction schema itself is meta-level)
axiom("psum-nonneg", {"a": "arr[float]", "n": "int"},
      "implies(n >= 0 and forall(0, n, lambda j: a[j] >= 0), psum(a, n) >= 0)")
axiom("psum-frame", {"a": "arr[float]", "b": "arr[float]", "n": "int"},
      "implies(n >= 0 and forall(0, n, lambda j: a[j] == b[j]), psum(a, n) == psum(b, n))")
PSUM = ["psum-base", "psum-step", "psum-nonneg", "psum-frame"]
NATIVE = {"psum": lambda a, j: sum(a[:int(j)])}

# real-analysis facts about x ** y for x > 0 (pow is uninterpreted in model R; these are the only facts used).  Trusted.
axiom("pow-positive", {"x": "float", "y": "float"}, "implies(x > 0, pow(x, y) > 0)", trusted=True)
axiom("pow-one", {"x": "float"}, "implies(x > 0, pow(x, 1) == x)", trusted=True)
axiom("pow-inverse", {"x": "float", "y": "float"}, "implies(x > 0 and y != 0, pow(pow(x, y), 1 / y) == x)", trusted=True)
axiom("pow-monotone-base", {"x": "float", "z": "float", "y": "float"},
      "implies(0 < x and x < z and y > 0, pow(x, y) < pow(z, y))", trusted=True)
POW = ["pow-positive", "pow-one", "pow-inverse", "pow-monotone-base"]
import math as _m
NATIVE.update({"math_acos": _m.acos, "math_sin": _m.sin, "math_cos": _m.cos, "math_exp": _m.exp})
axiom("pow-three-halves", {"x": "float"}, "implies(x > 0, pow(x, 3 / 2) == x * sqrt(x))", trusted=True)
axiom("sqrt-def", {"x": "float"}, "implies(x >= 0, sqrt(x) >= 0 and sqrt(x) * sqrt(x) == x)", trusted=True)
POW = POW + ["pow-three-halves", "sqrt-def"]
axiom("pow-inverse2", {"x": "float", "a": "float", "b": "float"}, "implies(x > 0 and a * b == 1, pow(pow(x, a), b) == x)", trusted=True)
axiom("pow-monotone-strict", {"x": "float", "z": "float", "y": "float"},
      "implies(0 < x and 0 < z and y > 0, (x < z) == (pow(x, y) < pow(z, y)))", trusted=True)
POW = POW + ["pow-inverse2", "pow-monotone-strict"]


# ---- native-only spec functions (used in "native:" clauses; evaluated on the real objects, never by the solvers)
def _uphill_energy(pot, separation, direction, x):
    """Cumulative uphill energy of a radially symmetric well potential U(|s|) (minimum at r0 = pot._equilibrium_separation)
    along s -> s - t e_d, t in [0, x]: sum over the monotone segments between the GEOMETRIC breakpoints (plane of closest
    approach t = s_d, crossings of the sphere |s - t e_d| = r0) of max(0, U(end) - U(start))."""
    import math
    s = [float(c) for c in separation]
    x = float(x)
    r0 = float(pot._equilibrium_separation)
    rest = sum(c * c for i, c in enumerate(s) if i != direction)
    pts = [0.0, x]
    if 0.0 < s[direction] < x:
        pts.append(s[direction])
    if r0 * r0 - rest >= 0.0:
        h = math.sqrt(r0 * r0 - rest)
        for t in (s[direction] - h, s[direction] + h):
            if 0.0 < t < x:
                pts.append(t)
    pts = sorted(set(pts))

    def U(t):
        v = list(s)
        v[direction] = s[direction] - t
        return float(pot._potential(v))
    total = 0.0
    for a, b in zip(pts, pts[1:]):
        total += max(0.0, U(b) - U(a))
    return total


NATIVE.update({"uphill_energy": _uphill_energy, "pot_energy": lambda pot, s: float(pot._potential([float(c) for c in s])), "close": lambda a, b: abs(float(a) - float(b)) <= 1e-6 * max(1.0, abs(float(a)), abs(float(b)))})


def _walker_table_exact(walker, rates):
    """The alias table is exact: n rows, each row's shares sum to the mean, each item's shares sum to its original rate."""
    n = len(rates)
    total = sum(rates)
    mean = total / n
    tol = 1e-9 * max(1.0, total)
    if abs(walker._total_rate - total) > tol or abs(walker._mean_rate - mean) > tol or len(walker._table) != n:
        return False
    got = {}
    for row in walker._table:
        if len(row) not in (1, 2):
            return False
        if any(s.rate < -tol for s in row) or abs(sum(s.rate for s in row) - mean) > 1e-6 * max(1.0, mean):
            return False
        for s in row:
            got[s.item] = got.get(s.item, 0.0) + s.rate
    for i, r in enumerate(rates):
        if abs(got.get(("cell", i), 0.0) - r) > 1e-6 * max(1.0, total):
            return False
    return True


NATIVE.update({"walker_table_exact": _walker_table_exact})


def _cb_uphill(pp, sx, sy, sz, x, L):
    """Cumulative uphill energy of the nearest-image potential pp / |nearest(s - t e_x)| for t in [0, x] (the active unit
    moves along +x, so the x separation decreases and is wrapped into [-L/2, L/2)): sum over the monotone segments
    between the breakpoints t = sx + k L/2 of max(0, U(end) - U(start))."""
    import math
    rho2 = sy * sy + sz * sz

    def U(t):
        a = sx - t
        a = a - L * math.floor(a / L + 0.5)
        return pp / math.sqrt(a * a + rho2)
    pts = [0.0, x]
    k = math.ceil(-sx / (L / 2.0))
    while True:
        t = sx + k * (L / 2.0)
        if t >= x:
            break
        if t > 0.0:
            pts.append(t)
        k += 1
        if len(pts) > 100000:
            break
    pts = sorted(set(pts))
    total = 0.0
    for a, b in zip(pts, pts[1:]):
        total += max(0.0, U(b) - U(a))
    return total


NATIVE.update({"cb_uphill": _cb_uphill})


def _ewald_rate_ref(separation, direction, length, alpha=2.9, position_cutoff=3, fourier_cutoff=7):
    """-dU/ds_direction for U = sum_n 1 / |s + n L| (tin-foil Ewald sum) for unit charges, computed with an Ewald
    parameter and cut-offs DIFFERENT from the ones of the code under test: agreement means convergence and
    alpha-independence of the code's value."""
    import math
    s = [float(c) for c in separation]
    a = alpha / length
    rate = 0.0
    rng = range(-position_cutoff, position_cutoff + 1)
    for nx in rng:
        for ny in rng:
            for nz in rng:
                v = (s[0] + nx * length, s[1] + ny * length, s[2] + nz * length)
                r_sq = v[0] * v[0] + v[1] * v[1] + v[2] * v[2]
                r = math.sqrt(r_sq)
                rate += v[direction] * (2.0 * a / math.sqrt(math.pi) * math.exp(-a * a * r_sq) + math.erfc(a * r) / r) / r_sq
    rng = range(-fourier_cutoff, fourier_cutoff + 1)
    for kx in rng:
        for ky in rng:
            for kz in rng:
                k_sq = kx * kx + ky * ky + kz * kz
                if k_sq == 0:
                    continue
                phase = 2.0 * math.pi / length * (kx * s[0] + ky * s[1] + kz * s[2])
                rate += 2.0 / (length * length) * (kx, ky, kz)[direction] / k_sq * math.exp(-math.pi ** 2 * k_sq / alpha ** 2) \
                    * math.sin(phase)
    return rate


def _ewald_ok(pot, velocity, separation, c1, c2, result):
    """result == c1 c2 speed * (reference rate along the direction of motion), and periodic in every direction."""
    L = float(pot._system_length)
    d = [i for i, v in enumerate(velocity) if v != 0.0][0]
    speed = float(velocity[d])
    ref = c1 * c2 * speed * _ewald_rate_ref(separation, d, L)
    tol = 1e-6 * (abs(ref) + abs(c1 * c2 * speed) / (L * L))
    if abs(result - ref) > tol:
        return False
    for e in range(3):
        shifted = list(separation)
        shifted[e] = shifted[e] - L if shifted[e] > 0 else shifted[e] + L
        # the image one box further (outside the minimum-image cube: the wrapper may assert the range) - skip on assertion
        try:
            other = pot.derivative(list(velocity), shifted, c1, c2)
        except AssertionError:
            continue
        if abs(other - result) > 10 * tol:
            return False
    return True


NATIVE.update({"ewald_ok": _ewald_ok})
