"""Every uninterpreted spec function and its defining axioms, in one place (the T items are listed in the evidence)."""
from pyvc.api import ufunc, axiom

# prefix sums over the contents of a list of floats:  psum(a, j) = a[0] + ... + a[j-1]
ufunc("psum", ["arr[float]", "int"], "float")
axiom("psum-base", {"a": "arr[float]"}, "psum(a, 0) == 0")
axiom("psum-step", {"a": "arr[float]", "j": "int"}, "implies(j >= 0, psum(a, j + 1) == psum(a, j) + a[j])")
# inductive consequences of the two defining axioms (each follows by induction on n; base and step are the
# lemma units "psum-nonneg-*" / "psum-frame-*" below, the induction schema itself is meta-level)
axiom("psum-nonneg", {"a": "arr[float]", "n": "int"},
      "implies(n >= 0 and forall(0, n, lambda j: a[j] >= 0), psum(a, n) >= 0)")
axiom("psum-frame", {"a": "arr[float]", "b": "arr[float]", "n": "int"},
      "implies(n >= 0 and forall(0, n, lambda j: a[j] == b[j]), psum(a, n) == psum(b, n))")
PSUM = ["psum-base", "psum-step", "psum-nonneg", "psum-frame"]
NATIVE = {"psum": lambda a, j: sum(a[:int(j)])}

# real-analysis facts about x ** y for x > 0 (pow is uninterpreted in model R; these are the only facts used).  Trusted.
axiom("pow-positive", {"x": "float", "y": "float"}, "implies(x > 0, pow(x, y) > 0)", trusted=True)
axiom("pow-one", {"x": "float"}, "implies(x > 0, pow(x, 1) == x)", trusted=True)
axiom("pow-inverse", {"x": "float", "y": "float"}, "implies(x > 0 and y != 0, pow(pow(x, y), 1 / y) == x)", trusted=True)
axiom("pow-monotone-base", {"x": "float", "z": "float", "y": "float"},
      "implies(0 < x and x < z and y > 0, pow(x, y) < pow(z, y))", trusted=True)
POW = ["pow-positive", "pow-one", "pow-inverse", "pow-monotone-base"]
import math as _m
NATIVE.update({"math_acos": _m.acos, "math_sin": _m.sin, "math_cos": _m.cos, "math_exp": _m.exp})
axiom("pow-three-halves", {"x": "float"}, "implies(x > 0, pow(x, 3 / 2) == x * sqrt(x))", trusted=True)
axiom("sqrt-def", {"x": "float"}, "implies(x >= 0, sqrt(x) >= 0 and sqrt(x) * sqrt(x) == x)", trusted=True)
POW = POW + ["pow-three-halves", "sqrt-def"]
