"""C06 (C side) - contracts and loop invariants for jellyfysh/scheduler/heap_scheduler/heap.c.  Model R for the
times (comparisons only), mathematical integers with no-wrap obligations for the unsigned indices."""
from pyvc.api import cls, struct, spec, contract, ufunc, axiom, lemma, LoopSpec

F = "jellyfysh/scheduler/heap_scheduler/heap.c:"
struct("HeapEntry", ("time_quotient", "float"), ("time_remainder", "float"), ("event_handler", "any"), ("counter", "int"))
cls("Heap", heap_entries="opt[list[HeapEntry]]", length="int", size="int")

ufunc("sizeof_struct_HeapEntry", [], "int")
ufunc("call_event_valid_callback", ["any", "any", "int"], "int")
spec("E(h, i)", "h.heap_entries[i]")
spec("lt(a, b)", "a.time_quotient < b.time_quotient or (a.time_quotient == b.time_quotient and a.time_remainder < b.time_remainder)")
spec("lt_t(q, r, b)", "q < b.time_quotient or (q == b.time_quotient and r < b.time_remainder)")
spec("ordered(h, j)", "not lt(E(h, j), E(h, j // 2))")
spec("is_sentinel(e)", "e.time_quotient == -inf and e.time_remainder == -inf")
spec("real_time(e)", "e.time_quotient > -inf")
# allocated block: heap_entries points to exactly `size` elements
spec("block_ok(h)", "h.heap_entries is not None and len(h.heap_entries) == h.size and 0 <= h.length and h.length + 1 <= h.size and h.size <= 2**31")
spec("wf(h)", "(h.size == 0 and h.length == 0 and h.heap_entries is None) or "
              "(block_ok(h) and 1 <= h.length and is_sentinel(E(h, 0)) "
              "and forall(1, h.length, lambda j: real_time(E(h, j))) "
              "and forall(2, h.length, lambda j: ordered(h, j)))")
spec("same_entry(a, b)", "a.time_quotient == b.time_quotient and a.time_remainder == b.time_remainder and "
                         "same(a.event_handler, b.event_handler) and a.counter == b.counter")
spec("is_new(e, q, r, h, c)", "e.time_quotient == q and e.time_remainder == r and same(e.event_handler, h) and e.counter == c")
spec("is_marker(e)", "e.time_quotient == -inf and e.time_remainder == -inf and e.event_handler is None and e.counter == 2**32 - 1")

# the root of a heap-ordered array is minimal: consequence of the parent order by strong induction on the index;
# the induction step is the lemma unit "heap-root-minimal-step" below, the induction schema itself is meta-level
axiom("heap-root-minimal", {"a": "arr[HeapEntry]", "n": "int"},
      "implies(forall(2, n, lambda j: not lt(a[j], a[j // 2])), forall(1, n, lambda j: not lt(a[j], a[1])))")
lemma("heap-root-minimal-step", "C06", model="R", variables={"a": "arr[HeapEntry]", "j": "int"},
      assumes=["j >= 2", "forall(1, j, lambda k: not lt(a[k], a[1]))", "not lt(a[j], a[j // 2])"],
      goal="not lt(a[j], a[1])")

# ------------------------------------------------------------------------------------------------- insert
contract(F + "insert", "C06", model="R",
         requires=["heap is not None", "wf(heap)", "time_quotient > -inf", "heap.size <= 2**30"],
         modifies=["heap.length", "heap.size", "heap.heap_entries", "contents(heap.heap_entries)"],
         ensures=[
             "implies(result != 2**64 - 1, wf(heap))",
             "implies(result != 2**64 - 1, heap.length == ite(old(heap.size) == 0, 2, old(heap.length) + 1))",
             # the new entry is in the heap
             "implies(result != 2**64 - 1, exists(1, heap.length, lambda p: E(heap, p).time_quotient == time_quotient and "
             "E(heap, p).time_remainder == time_remainder and same(E(heap, p).event_handler, event_handler) and "
             "E(heap, p).counter == counter))",
             "implies(result != 2**64 - 1, result == heap.size * sizeof_struct_HeapEntry())",
             # the block is either the old one or a newly allocated one (never somebody else's memory)
             "heap.heap_entries is None or same(heap.heap_entries, old(heap.heap_entries)) or fresh(heap.heap_entries)",
             # nothing else is invented: if no stored entry had handler ghost_h, the only entry with it is the new one
             "implies(result != 2**64 - 1 and forall(1, old(heap.length), lambda i: not same(old(E(heap, i)).event_handler, ghost_h)), "
             "forall(1, heap.length, lambda j: implies(same(E(heap, j).event_handler, ghost_h), is_new(E(heap, j), "
             "time_quotient, time_remainder, event_handler, counter))))",
         ],
         ghost={"params": {"ghost_h": "any"}},
         loops={0: LoopSpec(
             modifies=["contents(heap.heap_entries)"],
             invariant=[
                 "block_ok(heap) and 1 <= position < heap.length and position < 2**31",
                 "implies(forall(1, old(heap.length), lambda i: not same(old(E(heap, i)).event_handler, ghost_h)), "
                 "forall(1, heap.length, lambda j: implies(j != position, not same(E(heap, j).event_handler, ghost_h))))",
                 "parent_position == position // 2",
                 "is_sentinel(E(heap, 0))",
                 "forall(1, heap.length, lambda j: implies(j != position, real_time(E(heap, j))))",
                 # heap order everywhere except where the hole is the child
                 "forall(2, heap.length, lambda j: implies(j != position and j // 2 != position, ordered(heap, j)))",
                 # the children of the hole are above the new entry and above the hole's parent
                 "forall(2, heap.length, lambda j: implies(j // 2 == position, lt_t(time_quotient, time_remainder, E(heap, j)) "
                 "and implies(position >= 2, not lt(E(heap, j), E(heap, position // 2)))))",
             ], variant="position")},
         canary="heap.length == 0",
         note="heap order, sentinel, bounds and no-wrap for every size including the reallocation path")

# --------------------------------------------------------------------------------------------- bubble_down
# One recursion-free contract that serves both callers (root with position 1, the heapify loop of delete_events):
# n = heap->length, C = entries[n] is the cached entry that is bubbled down from `position`.
BD_PRE = ["heap is not None", "block_ok(heap)", "1 <= position <= heap.length",
          "forall(1, heap.length + 1, lambda j: real_time(E(heap, j)))",
          "forall(2, heap.length, lambda j: implies(j // 2 > position, ordered(heap, j)))"]
contract(F + "bubble_down", "C06", model="R",
         requires=BD_PRE,
         modifies=["contents(heap.heap_entries)"],
         ensures=[
             "forall(2, heap.length, lambda j: implies(j // 2 >= position, ordered(heap, j)))",
             "forall(0, position, lambda j: E(heap, j) == old(E(heap, j)))",
             "E(heap, heap.length) == old(E(heap, heap.length))",
             "forall(1, heap.length + 1, lambda j: real_time(E(heap, j)))",
             # nothing is invented: a handler absent from the entries before is absent afterwards
             "implies(forall(1, heap.length + 1, lambda i: not same(old(E(heap, i)).event_handler, ghost_h)), "
             "forall(1, heap.length + 1, lambda j: not same(E(heap, j).event_handler, ghost_h)))",
             # ... and a set of handlers that contained every entry's handler still does
             "implies(forall(1, heap.length + 1, lambda i: has(ghost_d, old(E(heap, i)).event_handler)), "
             "forall(1, heap.length + 1, lambda j: has(ghost_d, E(heap, j).event_handler)))",
         ],
         ghost={"params": {"ghost_h": "any", "ghost_d": "dict[any,int]"}},
         loops={0: LoopSpec(
             modifies=["contents(heap.heap_entries)"],
             invariant=[
                 "block_ok(heap)",
                 "implies(forall(1, heap.length + 1, lambda i: not same(old(E(heap, i)).event_handler, ghost_h)), "
                 "forall(1, heap.length + 1, lambda j: not same(E(heap, j).event_handler, ghost_h)))",
                 "implies(forall(1, heap.length + 1, lambda i: has(ghost_d, old(E(heap, i)).event_handler)), "
                 "forall(1, heap.length + 1, lambda j: has(ghost_d, E(heap, j).event_handler)))",
                 "old(position) <= position <= heap.length",
                 "E(heap, heap.length) == old(E(heap, heap.length))",
                 "forall(0, old(position), lambda j: E(heap, j) == old(E(heap, j)))",
                 "forall(1, heap.length + 1, lambda j: real_time(E(heap, j)))",
                 "forall(2, heap.length, lambda j: implies(j // 2 >= old(position) and j != position and j // 2 != position, "
                 "ordered(heap, j)))",
                 "implies(position > old(position) and position < heap.length, "
                 "not lt(E(heap, heap.length), E(heap, position // 2)) and "
                 "forall(2, heap.length, lambda j: implies(j // 2 == position, not lt(E(heap, j), E(heap, position // 2)))))",
             ], variant="heap.length - position")},
         canary="position == 0")

# --------------------------------------------------------------------------------------------------- root
contract(F + "root", "C06", model="R",
         requires=["heap is not None", "wf(heap)"],
         modifies=["heap.length", "contents(heap.heap_entries)"],
         ensures=[
             "wf(heap)",
             "heap.length <= old(heap.length) and heap.size == old(heap.size)",
             # a live entry at the root, or the empty marker
             "implies(heap.length > 1, result == E(heap, 1) and "
             "call_event_valid_callback(scheduler, result.event_handler, result.counter) == 0)",
             "implies(heap.length <= 1, is_marker(result))",
             "implies(forall(1, old(heap.length), lambda i: has(ghost_d, old(E(heap, i)).event_handler)), "
             "forall(1, heap.length, lambda j: has(ghost_d, E(heap, j).event_handler)))",
         ],
         ghost={"params": {"ghost_d": "dict[any,int]"}, "args": {"bubble_down": {"ghost_d": "ghost_d"}}},
         loops={0: LoopSpec(modifies=["heap.length", "contents(heap.heap_entries)"],
                            invariant=["wf(heap)", "heap.length <= old(heap.length) and heap.size == old(heap.size)",
                                       "same(heap.heap_entries, old(heap.heap_entries))",
                                       "implies(forall(1, old(heap.length), lambda i: has(ghost_d, old(E(heap, i)).event_handler)), "
                                       "forall(1, heap.length, lambda j: has(ghost_d, E(heap, j).event_handler)))"],
                            variant="heap.length")},
         canary="heap.length == 0")


contract(F + "root", "C06", model="R", tag="minimal",
         requires=["heap is not None", "wf(heap)"],
         modifies=["heap.length", "contents(heap.heap_entries)"],
         ensures=[
             # the returned entry is minimal among the stored ones (quotient first, then remainder)
             "implies(heap.length > 1, forall(1, heap.length, lambda j: not lt(E(heap, j), result)))",
         ],
         ghost={"params": {"ghost_d": "dict[any,int]"}, "args": {"bubble_down": {"ghost_d": "ghost_d"}},
                "late_axioms": ["heap-root-minimal"]},
         loops={0: LoopSpec(modifies=["heap.length", "contents(heap.heap_entries)"],
                            invariant=["wf(heap)", "heap.length <= old(heap.length) and heap.size == old(heap.size)",
                                       "same(heap.heap_entries, old(heap.heap_entries))"],
                            variant="heap.length")},
         canary="heap.length == 0")


# ------------------------------------------------------------------------------------------ delete_events
contract(F + "delete_events", "C06", model="R",
         requires=["heap is not None", "wf(heap)"],
         modifies=["heap.length", "contents(heap.heap_entries)"],
         ensures=[
             "wf(heap)",
             "heap.size == old(heap.size) and heap.length <= old(heap.length)",
             "forall(1, heap.length, lambda j: not same(E(heap, j).event_handler, event_handler))",
         ],
         ghost={"args": {"bubble_down": {"ghost_h": "event_handler"}}},
         loops={
             0: LoopSpec(modifies=["heap.length", "contents(heap.heap_entries)"], invariant=[
                 "heap.size == old(heap.size) and same(heap.heap_entries, old(heap.heap_entries))",
                 "implies(heap.size == 0, heap.length == 0 and heap.heap_entries is None)",
                 "implies(heap.size != 0, block_ok(heap) and 1 <= heap.length <= old(heap.length) and is_sentinel(E(heap, 0)) "
                 "and forall(1, heap.length, lambda j: real_time(E(heap, j))))",
                 "1 <= current_index and implies(heap.size != 0, current_index <= heap.length)",
                 "forall(1, current_index, lambda j: implies(j < heap.length, not same(E(heap, j).event_handler, event_handler)))",
             ], variant="heap.length - current_index + heap.length"),
             1: LoopSpec(modifies=["contents(heap.heap_entries)"], invariant=[
                 "heap.size == old(heap.size) and same(heap.heap_entries, old(heap.heap_entries))",
                 "implies(heap.size == 0, heap.length == 0 and heap.heap_entries is None and index == 0)",
                 "implies(heap.size != 0, block_ok(heap) and 1 <= heap.length and is_sentinel(E(heap, 0)) "
                 "and forall(1, heap.length, lambda j: real_time(E(heap, j))))",
                 "0 <= index <= heap.length // 2",
                 "forall(2, heap.length, lambda j: implies(j // 2 > index, ordered(heap, j)))",
                 "forall(1, heap.length, lambda j: not same(E(heap, j).event_handler, event_handler))",
             ], variant="index"),
         },
         canary="heap.length == 0")

# --------------------------------------------------------------------------------- entry / construct_heap
contract(F + "entry", "C06", model="R",
         requires=["heap is not None", "wf(heap)", "index < 2**32 - 1"],
         ensures=["implies(index + 1 < heap.length, result == E(heap, index + 1))",
                  "implies(not (index + 1 < heap.length), is_marker(result))"],
         canary="is_marker(result)")
contract(F + "construct_heap", "C06", model="R",
         ensures=["implies(result is not None, wf(result) and result.size == 0 and fresh(result))"],
         canary="result is None")
