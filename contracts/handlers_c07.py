"""C07 / C17 - the time-slicing primitive and the sampling / end-of-run candidate times (model R)."""
from pyvc.api import cls, spec, contract, module_global
import contracts.time_c14        # noqa
import contracts.periodic_c15    # noqa
import contracts.thinning_c04    # noqa  (Unit / Node declarations)

S = "jellyfysh.setting"
module_global(S, "dimension", "int", ["dimension == 3", "dimension == glob('jellyfysh.setting.hypercuboid_setting', 'dimension')"])
module_global(S, "periodic_boundaries", "HypercuboidPeriodicBoundaries", [])
cls("BasicEventHandler", _event_time="Time", _state="list[Node]")
cls("FixedIntervalSamplingEventHandler", _event_time="opt[Time]", _sampling_interval="float", _state="opt[list[Node]]",
    _output_handler="any")
cls("FinalTimeEndOfRunEventHandler", _event_time="opt[Time]", _state="opt[list[Node]]", _output_handler="any")
CUB = "jellyfysh.setting.hypercuboid_setting"

A = "jellyfysh.event_handler.abstracts.abstracts:BasicEventHandler."
contract(A + "_time_slice_unit", ["C07", "C17"], model="R", params={"unit": "Unit"},
         globals=["dimension", "periodic_boundaries"],
         requires=["len(unit.position) == 3", "fin(self._event_time)",
                   "implies(unit.velocity is not None, len(unit.velocity) == 3 and unit.time_stamp is not None and fin(unit.time_stamp) "
                   "and not same(unit.time_stamp, self._event_time) and not same(unit.position, unit.velocity))",
                   # the settings' length tuples are immutable and never a unit's position list
                   "not same(unit.position, glob('jellyfysh.setting.hypercuboid_setting', 'system_lengths'))",
                   "not same(unit.position, glob('jellyfysh.setting.hypercuboid_setting', 'system_lengths_over_two'))"],
         modifies=["contents(unit.position)", "unit.time_stamp._quotient", "unit.time_stamp._remainder"],
         ensures=[
             # a unit without velocity does not move at all
             "implies(unit.velocity is None, forall(0, 3, lambda d: unit.position[d] == old(unit.position[d])))",
             # a moving unit is advanced along its recorded velocity by the elapsed time, modulo the box, into [0, L)
             "implies(unit.velocity is not None, forall(0, 3, lambda d: 0 <= unit.position[d] and unit.position[d] < box_length(d) and "
             "congruent(unit.position[d], old(unit.position[d] + unit.velocity[d] * (val(self._event_time) - val(unit.time_stamp))), box_length(d))))",
             # its time stamp becomes the event time; the velocity is untouched
             "implies(unit.velocity is not None, val(unit.time_stamp) == val(self._event_time) and "
             "forall(0, 3, lambda d: unit.velocity[d] == old(unit.velocity[d])))",
             "len(unit.position) == 3"],
         canary="unit.velocity is None",
         native_search=False,
         note="C07.1: time slicing moves a unit along its straight trajectory and nowhere else")
spec("box_length(d)", "glob('jellyfysh.setting.hypercuboid_setting', 'system_lengths')[d]")

# ---- C17: candidate times of the sampling and end-of-run handlers
contract("jellyfysh.event_handler.fixed_interval_sampling_event_handler:FixedIntervalSamplingEventHandler.send_event_time",
         "C17", model="R", returns="Time",
         requires=["fin(self._event_time)", "self._sampling_interval > 0", "not isinf(self._sampling_interval)"],
         modifies=["self._event_time"],
         ensures=[
             # the k-th call returns T0 + k * interval: each call adds exactly one interval to the stored time
             "val(result) == old(val(self._event_time)) + self._sampling_interval",
             "same(result, self._event_time)",
             "is_int(result._quotient) and 0 <= result._remainder < 1"],
         canary="val(result) == 0", native_search=False,
         note="with Time.__add__ (C14): one rounding of the remainder per step, independent of k")
contract("jellyfysh.event_handler.final_time_end_of_run_event_handler:FinalTimeEndOfRunEventHandler.send_event_time",
         "C17", model="R", returns="Time", ensures=["same(result, self._event_time)"], canary="result is None",
         native_search=False, note="the run ends at the stored end time (from_float(end_of_run_time), exact by C14)")

# ---- C17: the constructors establish what send_event_time relies on
cls("EventHandler", number_send_event_time_arguments="int", number_send_out_state_arguments="int")
contract("jellyfysh.event_handler.event_handler:EventHandler.__init__", "C17", model="R", assume_only=True,
         params={"kwargs": "any"}, modifies=["self.number_send_event_time_arguments", "self.number_send_out_state_arguments"],
         allocates=False, note="interface: introspection of the two mediating methods (inspect.signature), nothing else")
contract("jellyfysh.event_handler.fixed_interval_sampling_event_handler:FixedIntervalSamplingEventHandler.__init__",
         "C17", model="R", params={"sampling_interval": "float", "output_handler": "any", "first_event_time_zero": "bool"},
         requires=["not isinf(sampling_interval)"],
         raises={"ConfigurationError": "not (sampling_interval > 0)"},
         modifies=["self._sampling_interval", "self._event_time", "self._output_handler", "self._state",
                   "self.number_send_event_time_arguments", "self.number_send_out_state_arguments"],
         ensures=["self._sampling_interval == sampling_interval", "self._sampling_interval > 0",
                  "is_int(self._event_time._quotient) and 0 <= self._event_time._remainder < 1",
                  # the first candidate (one interval later) is the interval itself, or exactly zero if so requested
                  "val(self._event_time) == ite(first_event_time_zero, -sampling_interval, 0)"],
         canary="first_event_time_zero", native_search=False,
         note="the stored time is normalised: send_event_time's precondition")
contract("jellyfysh.event_handler.final_time_end_of_run_event_handler:FinalTimeEndOfRunEventHandler.__init__",
         "C17", model="R", params={"end_of_run_time": "float", "output_handler": "any"},
         requires=["not isinf(end_of_run_time)"],
         raises={"ConfigurationError": "not (end_of_run_time >= 0)"},
         modifies=["self._event_time", "self._output_handler", "self._state",
                   "self.number_send_event_time_arguments", "self.number_send_out_state_arguments"],
         ensures=["is_int(self._event_time._quotient) and 0 <= self._event_time._quotient and 0 <= self._event_time._remainder < 1",
                  "val(self._event_time) == end_of_run_time"],
         canary="end_of_run_time == 0", native_search=False,
         note="the end time is a NORMALISED Time: the schedulers compare quotients first")

# bit precise (model F): each step rounds ONCE, on the remainder only - the error of the k-th sample time does not grow with k
contract("jellyfysh.event_handler.fixed_interval_sampling_event_handler:FixedIntervalSamplingEventHandler.send_event_time",
         "C17", tag="F", model="F", returns="Time", lemmas_used=["divmod1"],
         requires=["is_int(self._event_time._quotient) and 0 <= self._event_time._quotient <= 2**52 and "
                   "0 <= self._event_time._remainder < 1", "0 < self._sampling_interval <= 2**40"],
         modifies=["self._event_time"],
         ensures=["is_int(result._quotient)", "0 <= result._remainder < 1",
                  "result._remainder == old(rn_sub(rn_add(self._event_time._remainder, self._sampling_interval), "
                  "floor(rn_add(self._event_time._remainder, self._sampling_interval))))",
                  "result._quotient == old(rn_add(self._event_time._quotient, "
                  "floor(rn_add(self._event_time._remainder, self._sampling_interval))))",
                  "old(exact_add(self._event_time._quotient, floor(rn_add(self._event_time._remainder, self._sampling_interval))))",
                  "old(exact_sub(rn_add(self._event_time._remainder, self._sampling_interval), "
                  "floor(rn_add(self._event_time._remainder, self._sampling_interval))))"],
         canary="result._remainder < 0.5", native_search=False,
         trusted=["cpython_float_divmod (see C14)"],
         note="new time = quotient + RN(remainder + interval) with both remaining operations exact: one rounding per "
              "sample, of a number below 2^40+1, whatever the accumulated time")

# ---- C07: an end-of-chain event changes the direction, never the speed ("one chain with the initial speed")
EOCP = "jellyfysh.event_handler.single_independent_active_periodic_direction_end_of_chain_event_handler:" \
       "SingleIndependentActivePeriodicDirectionEndOfChainEventHandler."
EOCS = "jellyfysh.event_handler.single_independent_active_sequential_direction_end_of_chain_event_handler:" \
       "SingleIndependentActiveSequentialDirectionEndOfChainEventHandler."
cls("SingleIndependentActiveSequentialDirectionEndOfChainEventHandler", _cos_delta_phi="float", _sin_delta_phi="float")
contract(EOCP + "_get_new_velocity", "C07", model="R", params={"old_velocity": "list[float]"}, returns="list[float]",
         globals=["dimension"],
         requires=["len(old_velocity) == 3"],
         may_raise={"AssertionError": []},
         ensures=["len(result) == 3", "fresh(result)",
                  # the single moving component is handed to the next axis (cyclically), unchanged; the others are zero
                  "forall(0, 3, lambda d: implies(old_velocity[d] != 0, result[(d + 1) % 3] == old_velocity[d] and "
                  "result[d] == 0 and result[(d + 2) % 3] == 0))",
                  "result[0] * result[0] + result[1] * result[1] + result[2] * result[2] == "
                  "old_velocity[0] * old_velocity[0] + old_velocity[1] * old_velocity[1] + old_velocity[2] * old_velocity[2]"],
         canary="result[0] == 0", native_search=False,
         note="periodic direction change: same speed, next axis")
contract(EOCS + "_get_new_velocity", "C07", model="R", params={"old_velocity": "list[float]"}, returns="list[float]",
         requires=["self._cos_delta_phi * self._cos_delta_phi + self._sin_delta_phi * self._sin_delta_phi == 1"],
         may_raise={"AssertionError": []},
         ensures=["len(result) == 2",
                  "result[0] * result[0] + result[1] * result[1] == old_velocity[0] * old_velocity[0] + old_velocity[1] * old_velocity[1]"],
         canary="result[0] == 0", native_search=False,
         note="sequential direction change (2-D rotation): the speed is conserved for every rotation angle "
              "(cos^2 + sin^2 = 1 is the constructor's invariant, assumed)")

# ---- the helper every single-active-unit handler starts with (an assumed interface of the cell-veto proof until verified here)
cls("SingleActiveLeafUnitEventHandler", _leaf_units="opt[list[Unit]]", _leaf_cnodes="opt[list[Node]]",
    _active_leaf_unit="opt[Unit]", _active_leaf_unit_index="int")
contract("jellyfysh.event_handler.abstracts.abstracts:SingleActiveLeafUnitEventHandler._extract_active_leaf_unit",
         ["C07", "C18"], model="R", tag="body",
         requires=["implies(self._leaf_units is not None, forall(0, len(self._leaf_units), lambda j: self._leaf_units[j] is not None))"],
         may_raise={"AssertionError": []},
         modifies=["self._active_leaf_unit", "self._active_leaf_unit_index"],
         ensures=["0 <= self._active_leaf_unit_index < len(self._leaf_units)",
                  "same(self._active_leaf_unit, self._leaf_units[self._active_leaf_unit_index])",
                  "self._active_leaf_unit is not None and self._active_leaf_unit.velocity is not None",
                  # it is the ONLY leaf unit with a velocity
                  "forall(0, len(self._leaf_units), lambda j: implies(self._leaf_units[j].velocity is not None, "
                  "j == self._active_leaf_unit_index))"],
         canary="self._active_leaf_unit_index == 0", native_search=False, ghost={"unit_only": True},
         note="the active leaf unit is the unique leaf unit with a velocity (AssertionError otherwise); verified as a unit "
              "of its own - call sites use the interface contract whose first clauses this proves")

# ---- C07: "events only hand velocity over" - the one place where a point mass's velocity is passed on, proved
# from the body for point masses that are their own roots (no parent cnode: atoms).  Composite-object branches go
# through the C12 registration contract and the bounded stand-ins.
cls("LeavesEventHandler", _non_leaf_velocity_changes="dict[list[int],list[float]]")
contract("jellyfysh.event_handler.abstracts.abstracts:LeavesEventHandler._commit_non_leaf_velocity_changes",
         "C07", model="R", assume_only=True, tag="leafframe",
         modifies=["self._non_leaf_velocity_changes", "ALL.velocity", "ALL.time_stamp", "allcontents(float)"],
         ensures=["forall(lambda n: implies(not old(has(self._non_leaf_velocity_changes, obj(n, 'Unit').identifier)), "
                  "same(obj(n, 'Unit').velocity, old(obj(n, 'Unit').velocity)) and "
                  "same(obj(n, 'Unit').time_stamp, old(obj(n, 'Unit').time_stamp)) and "
                  "implies(old(obj(n, 'Unit').velocity) is not None, forall(0, 3, lambda d: "
                  "old(obj(n, 'Unit').velocity)[d] == old(obj(n, 'Unit').velocity[d])))))"],
         note="interface: only units whose identifier has a pending non-leaf change are touched (recursive tree walk, not under contract)")
contract("jellyfysh.event_handler.abstracts.abstracts:SingleActiveLeafUnitEventHandler._exchange_velocity",
         "C07", model="R", tag="handover", params={"cnode_with_active_unit": "Node", "target_cnode": "Node"},
         inline=["_register_velocity_change_leaf_cnode"],
         requires=["cnode_with_active_unit.parent is None", "target_cnode.parent is None",
                   "self._leaf_units is not None", "cnode_with_active_unit.value is not None", "target_cnode.value is not None",
                   "implies(cnode_with_active_unit.value.velocity is not None, len(cnode_with_active_unit.value.velocity) == 3)",
                   "not has(self._non_leaf_velocity_changes, cnode_with_active_unit.value.identifier)",
                   "not has(self._non_leaf_velocity_changes, target_cnode.value.identifier)"],
         may_raise={"AssertionError": []},
         modifies=["self._non_leaf_velocity_changes", "ALL.velocity", "ALL.time_stamp", "allcontents(float)"],
         ensures=[
             # the target now carries the very velocity (same list, same components) and time stamp of the active unit
             "same(target_cnode.value.velocity, old(cnode_with_active_unit.value.velocity))",
             "target_cnode.value.velocity is not None",
             "forall(0, 3, lambda d: target_cnode.value.velocity[d] == old(cnode_with_active_unit.value.velocity[d]))",
             "same(target_cnode.value.time_stamp, old(cnode_with_active_unit.value.time_stamp))",
             # the formerly active unit is at rest: exactly one of the two moves afterwards
             "cnode_with_active_unit.value.velocity is None and cnode_with_active_unit.value.time_stamp is None"],
         canary="target_cnode.value.velocity is None", native_search=False, ghost={"unit_only": True},
         note="C07: a lifting between point masses hands the velocity object over unchanged (speed conserved, one mover)")
