"""C05 - lifting schemes (jellyfysh.lifting).  Model R."""
from pyvc.api import cls, spec, contract, lemma, LoopSpec
from contracts.axioms import PSUM

L = "jellyfysh.lifting.lifting:Lifting."
cls("Lifting", _negative_lifting_rates="list[float]", _associated_identifiers="list[any]", _random_position="float",
    _sum_positive_lifting_rates="float", _active_recorded="bool")

# representation invariant of the table
spec("table_ok(s)", "len(s._negative_lifting_rates) == len(s._associated_identifiers) "
                    "and not same(s._negative_lifting_rates, s._associated_identifiers) "
                    "and forall(0, len(s._negative_lifting_rates), lambda j: s._negative_lifting_rates[j] > 0)")
spec("total_neg(s)", "psum(s._negative_lifting_rates, len(s._negative_lifting_rates))")
# identifier ids[j] is an admissible answer for walk position pos: pos lies in the CLOSED j-th interval of the
# cumulative negative rates (closed on purpose: the property leaves the attribution of end points open)
spec("selects(s, ident, pos)",
     "exists(0, len(s._negative_lifting_rates), lambda j: same(ident, s._associated_identifiers[j]) and "
     "psum(s._negative_lifting_rates, j) <= pos <= psum(s._negative_lifting_rates, j + 1))")

contract(L + "insert", "C05", model="R", axioms=PSUM,
         params={"lifting_rate": "float", "associated_identifier": "any", "is_active": "bool"},
         requires=["table_ok(self)", "implies(lifting_rate <= 0, not is_active)"],
         modifies=["self._sum_positive_lifting_rates", "self._random_position", "self._active_recorded",
                   "elems(self._negative_lifting_rates)", "elems(self._associated_identifiers)"],
         ensures=[
             "table_ok(self)",
             # positive entry: only the running sums move
             "implies(lifting_rate > 0, len(self._negative_lifting_rates) == old(len(self._negative_lifting_rates)))",
             "implies(lifting_rate > 0, self._sum_positive_lifting_rates == old(self._sum_positive_lifting_rates) + lifting_rate)",
             "implies(lifting_rate > 0 and is_active, self._active_recorded and "
             "old(self._random_position) <= self._random_position <= old(self._random_position) + lifting_rate)",
             "implies(lifting_rate > 0 and is_active, self._random_position == old(self._random_position) + draw0)",
             "implies(lifting_rate > 0 and not is_active and not old(self._active_recorded), "
             "self._random_position == old(self._random_position) + lifting_rate and not self._active_recorded)",
             "implies(lifting_rate > 0 and not is_active and old(self._active_recorded), "
             "self._random_position == old(self._random_position) and self._active_recorded)",
             # strictly negative entry: appended with its magnitude; a zero entry is not stored at all (a unit whose
             # derivative is not negative must never be selectable); nothing else moves
             "implies(lifting_rate == 0, len(self._negative_lifting_rates) == old(len(self._negative_lifting_rates)))",
             "implies(lifting_rate < 0, len(self._negative_lifting_rates) == old(len(self._negative_lifting_rates)) + 1 "
             "and self._negative_lifting_rates[len(self._negative_lifting_rates) - 1] == -lifting_rate "
             "and same(self._associated_identifiers[len(self._associated_identifiers) - 1], associated_identifier))",
             "implies(lifting_rate <= 0, forall(0, old(len(self._negative_lifting_rates)), lambda j: "
             "self._negative_lifting_rates[j] == old(self._negative_lifting_rates[j]) and "
             "same(self._associated_identifiers[j], old(self._associated_identifiers[j]))))",
             "implies(lifting_rate <= 0, self._random_position == old(self._random_position) and "
             "self._sum_positive_lifting_rates == old(self._sum_positive_lifting_rates) and "
             "self._active_recorded == old(self._active_recorded))",
             "implies(lifting_rate <= 0, total_neg(self) == old(total_neg(self)) - lifting_rate)",
         ],
         canary="self._random_position == old(self._random_position)",
         note="draw0 is the uniform draw in [0, lifting_rate] (ghost input)")

WALK = lambda pos: LoopSpec(invariant=[
    "0 <= index <= len(self._negative_lifting_rates)",
    "summed_lifting_rate == psum(self._negative_lifting_rates, index)",
    # ">=" (not ">"): also inductive for a walk that tests "<" instead of "<=" - the closed-interval
    # postcondition does not depend on how end points are attributed
    "forall(1, index + 1, lambda j: %s >= psum(self._negative_lifting_rates, j))" % pos])

for scheme, mod, pos, pre, modifies in (
        ("InsideFirstLifting", "inside_first_lifting", "self._random_position",
         ["0 <= self._random_position <= total_neg(self)"], []),
        ("OutsideFirstLifting", "outside_first_lifting", "self._random_position",
         ["0 <= self._random_position <= total_neg(self)"], ["self._random_position"]),
        ("RatioLifting", "ratio_lifting", "random_number", [], [])):
    Q = "jellyfysh.lifting.%s:%s.get_active_identifier" % (mod, scheme)
    if scheme == "InsideFirstLifting":
        post = ["selects(self, result, self._random_position)"]
    elif scheme == "OutsideFirstLifting":
        post = ["selects(self, result, old(total_neg(self) - self._random_position))",
                "self._random_position == old(total_neg(self) - self._random_position)"]
    else:
        post = ["selects(self, result, draw0)", "0 <= draw0 <= total_neg(self)"]
    contract(Q, "C05", model="R", axioms=PSUM, returns="any",
             requires=["table_ok(self)", "len(self._negative_lifting_rates) >= 1"] + pre,
             raises={"LiftingSchemeError": "not self._active_recorded"},
             modifies=modifies, ensures=post, loops={0: WALK(pos)},
             canary="same(result, self._associated_identifiers[0])",
             note="closed-interval selection: the result's cumulative interval contains the walk position")
    # the selected unit has a strictly negative derivative (its stored magnitude is positive)
    contract(Q, "C05", tag="negative", model="R", axioms=PSUM, returns="any",
             requires=["table_ok(self)", "len(self._negative_lifting_rates) >= 1", "self._active_recorded"] + pre,
             modifies=modifies, loops={0: WALK(pos)},
             ensures=["exists(0, len(self._negative_lifting_rates), lambda j: same(result, self._associated_identifiers[j]) "
                      "and self._negative_lifting_rates[j] > 0)"],
             canary="same(result, self._associated_identifiers[0])",
             note="the representation invariant (established by insert) stores strictly negative derivatives only, so every "
                  "selectable unit has a negative derivative - for the whole closed range of the draw")

# interval additivity = the induction step of the tiling lemma: the positive entries tile [0, sum P], so summing the
# overlap of each tile with the target interval I = [lo, hi] gives |I cap [0, sum P]|; with sum P == sum N and
# I = [cumN(j), cumN(j+1)] this is N_j: global balance of the lifted flow (DESIGN section 4, C05.3-4)
spec("overlap(a, b, lo, hi)", "max(0, min(b, hi) - max(a, lo))")
lemma("tiling-step", "C05", model="R", variables={"p": "float", "q": "float", "lo": "float", "hi": "float"},
      assumes=["0 <= p <= q", "lo <= hi"],
      goal="overlap(0, p, lo, hi) + overlap(p, q, lo, hi) == overlap(0, q, lo, hi)")
lemma("tiling-total", "C05", model="R", variables={"t": "float", "lo": "float", "hi": "float"},
      assumes=["0 <= lo <= hi <= t"], goal="overlap(0, t, lo, hi) == hi - lo",
      note="when the positive and negative rates sum to the same total, the accumulated probability of interval j is N_j")
