"""C04 - thinning: a proposed event of a bounding potential is confirmed iff the uniform draw in [0, q_bound] lies below
the true rate (probability max(0, q_true) / q_bound), and an unconfirmed event hands no velocity over."""
from pyvc.api import cls, spec, contract, ufunc

A = "jellyfysh.event_handler.abstracts."
cls("Unit", identifier="list[int]", position="list[float]", charge="any", velocity="opt[list[float]]", time_stamp="opt[Time]")
cls("Node", value="Unit", parent="opt[Node]", children="list[Node]", _weight="float")
cls("EventHandlerWithBoundingPotential", _bounding_event_rate="float", _potential="Potential", _leaf_units="list[Unit]",
    _leaf_cnodes="list[Node]", _active_leaf_unit="Unit", _active_leaf_unit_index="int", _exchanged="int")

# interface contracts (assumed at call sites; each concrete override is verified against it elsewhere or listed as trusted)
ufunc("true_rate", ["any", "any", "any"], "float")
contract("jellyfysh.potential.potential:Potential.derivative", "C04", model="R", assume_only=True,
         params={"velocity": "list[float]", "separations": "any", "charges": "any"}, returns="float",
         ensures=["result == true_rate(self, velocity, separations)"], allocates=False,
         note="interface: the true event rate q_true is a function of the potential, the velocity and the separation")
contract(A + "abstracts:SingleActiveLeafUnitEventHandler._exchange_velocity", "C04", model="R", assume_only=True,
         params={"cnode_with_active_unit": "Node", "target_cnode": "Node"},
         modifies=["self._exchanged", "cnode_with_active_unit.value.velocity", "cnode_with_active_unit.value.time_stamp",
                   "target_cnode.value.velocity", "target_cnode.value.time_stamp"],
         ensures=["self._exchanged == old(self._exchanged) + 1"],
         note="interface: the only place where a velocity is handed over; _exchanged is a ghost counter of its calls")

contract(A + "event_handler_with_bounding_potential:EventHandlerWithBoundingPotential."
             "_calculate_out_state_of_two_leaf_unit_bounding_potential", "C04", model="R",
         params={"separation": "list[float]", "potential_charges": "tuple[float,float]"},
         inline=["bounding_potential_warning"],
         requires=["len(self._leaf_units) == 2", "len(self._leaf_cnodes) == 2", "0 <= self._active_leaf_unit_index <= 1",
                   "self._bounding_event_rate > 0", "self._active_leaf_unit.velocity is not None"],
         modifies=["self._exchanged", "self._leaf_cnodes[0].value.velocity", "self._leaf_cnodes[0].value.time_stamp",
                   "self._leaf_cnodes[1].value.velocity", "self._leaf_cnodes[1].value.time_stamp"],
         ensures=[
             # confirmed exactly when the draw u in [0, q_bound] lies below the true rate: probability max(0, q)/q_bound
             "(self._exchanged == old(self._exchanged) + 1) == "
             "(old(true_rate(self._potential, self._active_leaf_unit.velocity, separation)) > 0 and "
             "draw0 < old(true_rate(self._potential, self._active_leaf_unit.velocity, separation)))",
             "self._exchanged == old(self._exchanged) or self._exchanged == old(self._exchanged) + 1",
             # unconfirmed: every velocity and time stamp is untouched
             "implies(self._exchanged == old(self._exchanged), "
             "same(self._leaf_cnodes[0].value.velocity, old(self._leaf_cnodes[0].value.velocity)) and "
             "same(self._leaf_cnodes[1].value.velocity, old(self._leaf_cnodes[1].value.velocity)) and "
             "same(self._leaf_cnodes[0].value.time_stamp, old(self._leaf_cnodes[0].value.time_stamp)) and "
             "same(self._leaf_cnodes[1].value.time_stamp, old(self._leaf_cnodes[1].value.time_stamp)))",
             "implies(old(true_rate(self._potential, self._active_leaf_unit.velocity, separation)) > 0, "
             "0 <= draw0 <= self._bounding_event_rate)"],
         canary="self._exchanged == old(self._exchanged)",
         native_search=False,
         note="the measure of {u in [0, q_bound] : u < q} is max(0, q) when q <= q_bound (domination: bounded grid check)")
