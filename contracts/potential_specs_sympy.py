"""CAS lemmas (sympy, trusted): each spec derivative used in contracts/potentials_c03.py is d/dx of the spec ENERGY
U(s - x e_d) at x = 0, the energies being written from the model definitions."""
import time

import sympy as sp

from pyvc.runner import UnitResult
from pyvc.core import Obligation


def sympy_units(prop, tier, seed, timeout_ms, only=None, **_):
    if only and "sympy" not in only:
        return []
    u = UnitResult("lemma:sympy-spec-derivatives", kind="lemma")
    u.model_name = "R"
    u.props = [prop]
    u.trusted = ["sympy %s (symbolic differentiation and simplification)" % sp.__version__]
    t0 = time.time()
    x, k, c1, c2, p, r0, sig = sp.symbols("x k c1 c2 p r0 sigma", positive=True)
    s = sp.symbols("s0 s1 s2", real=True)
    n = sp.Symbol("n", positive=True)
    cases = []
    for d in range(3):
        sh = [s[i] - (x if i == d else 0) for i in range(3)]
        r = sp.sqrt(sum(c * c for c in sh))
        r_0 = sp.sqrt(sum(c * c for c in s))
        # inverse power
        U = k * c1 * c2 / r ** p
        cases.append(("inverse-power d=%d" % d, sp.diff(U, x).subs(x, 0), k * c1 * c2 * p * s[d] / r_0 ** (p + 2)))
        # displaced even power
        U = k * (r - r0) ** n
        cases.append(("displaced-even-power d=%d" % d, sp.diff(U, x).subs(x, 0), -(n * k * (r_0 - r0) ** (n - 1) * s[d] / r_0)))
        # Lennard-Jones
        U = k * ((sig / r) ** 12 - (sig / r) ** 6)
        cases.append(("lennard-jones d=%d" % d, sp.diff(U, x).subs(x, 0),
                      k * sig ** 12 * 12 * s[d] / r_0 ** 14 - k * sig ** 6 * 6 * s[d] / r_0 ** 8))
        # 1/r
        U = k / r
        cases.append(("one-over-r d=%d" % d, sp.diff(U, x).subs(x, 0), k * s[d] / (r_0 ** 2 * r_0)))
    obs = []
    for name, lhs, rhs in cases:
        ok = sp.simplify(lhs - rhs) == 0
        ob = Obligation("sympy/%s: d/dx U(s - x e_d)|0 == spec derivative" % name, [], True, "lemma", 0)
        ob.result = "unsat" if ok else "sat"
        ob.backend = "sympy-%s" % sp.__version__
        obs.append(ob)
    u.obligations = obs
    u.paths = 1
    u.failed = [o for o in obs if o.result == "sat"]
    u.status = "failed" if u.failed else "proved"
    u.seconds = time.time() - t0
    return [u]
