"""C03 - event rates are the directional derivative of the model energy (closed-form potentials, model R).
The spec derivatives are written from the model definitions; that each is d/dx of its spec energy U(s - x e_d) at
x = 0 is checked with sympy (contracts/potential_specs_sympy.py, a CAS lemma - trusted: sympy)."""
from pyvc.api import cls, spec, contract
from contracts.axioms import POW

P = "jellyfysh.potential."
IPGEN = "def gen(rng):\n    from jellyfysh.potential.inverse_power_potential import InversePowerPotential\n    return {'self': InversePowerPotential(power=rng.choice([1.0, 2.0, 3.0, 6.0, 12.0]), prefactor=rng.choice([1.0, -2.0, 0.5, 3.0])),\n            'separation': [rng.choice([0.3, -0.7, 1.1, 0.0, -0.2]) for _ in range(3)], 'direction': rng.randrange(3), 'dirn': rng.randrange(3)}\n"
cls("Potential", _prefactor="float", _number_separation_arguments="any", _number_charge_arguments="any",
    _potential_change_required="any")
cls("InversePowerPotential", _power="float", _two_over_power="float", _power_over_two="float", _power_plus_two="float",
    _infinity="float", _prefactor="float")
cls("DisplacedEvenPowerPotential", _equilibrium_separation="float", _equilibrium_separation_squared="float", _power="int",
    _inverse_power="float", _prefactor="float")
cls("LennardJonesPotential", _six_power_potential="InversePowerPotential", _twelve_power_potential="InversePowerPotential",
    _characteristic_length="float", _prefactor="float", _equilibrium_separation="float",
    _equilibrium_separation_squared="float")

spec("n2(s)", "s[0] * s[0] + s[1] * s[1] + s[2] * s[2]")
spec("nrm(s)", "sqrt(n2(s))")
# object invariants established by the constructors (taken as preconditions; constructors use **kwargs and are out of reach)
spec("ip_ok(p)", "p._power > 0 and p._power_plus_two == p._power + 2 and p._two_over_power == 2 / p._power and "
                 "p._power_over_two == p._power / 2")
# d/dx [ k c1 c2 / |s - x e_d|^p ] at x = 0
spec("ip_derivative(k, p, c1, c2, s, d)", "k * c1 * c2 * p * s[d] / pow(nrm(s), p + 2)")
# d/dx [ k (|s - x e_d| - r0)^n ] at x = 0
spec("dep_derivative(k, n, r0, s, d)", "-(n * k * pow_int(nrm(s) - r0, n - 1) * s[d] / nrm(s))")

VEC3 = ["len(separation) == 3", "0 <= direction < 3", "n2(separation) > 0"]

contract(P + "inverse_power_potential:InversePowerPotential.standard_velocity_derivative", "C03", model="R",
         params={"separation": "list[float]"},
         requires=VEC3 + ["ip_ok(self)"], axioms=["pow-positive"], native_gen=IPGEN,
         ensures=["result == ip_derivative(self._prefactor, self._power, charge_one, charge_two, separation, direction)"],
         canary="result == 0",
         note="linear in the charge product; separation = target - active")

contract(P + "abstracts:StandardVelocityPotential._analyse_velocity", "C03", model="R", params={"velocity": "list[float]"},
         returns="tuple[int,float]", leading_asserts="oblige",
         requires=["len(velocity) == 3", "exists(0, 3, lambda d: velocity[d] > 0 and forall(0, 3, lambda e: implies(e != d, velocity[e] == 0)))"],
         ensures=["0 <= result[0] < 3", "velocity[result[0]] == result[1]", "result[1] > 0",
                  "forall(0, 3, lambda e: implies(e != result[0], velocity[e] == 0))"],
         canary="result[0] == 0",
         note="the direction of motion is the unique non-zero (positive) component, the speed is its value")

contract(P + "inverse_power_potential:InversePowerPotential.derivative", "C03", model="R", params={"velocity": "list[float]"},
         ghost={"varargs": [("separation", "list[float]"), ("charge_one", "float"), ("charge_two", "float")],
                "params": {"dirn": "int"}},
         requires=["len(velocity) == 3", "len(separation) == 3", "n2(separation) > 0", "ip_ok(self)",
                   "0 <= dirn < 3 and velocity[dirn] > 0 and forall(0, 3, lambda e: implies(e != dirn, velocity[e] == 0))"],
         axioms=["pow-positive"], returns="float", native_gen=IPGEN.replace("'direction': rng.randrange(3), 'dirn': rng.randrange(3)}", "'dirn': 1, 'velocity': [0.0, 2.5, 0.0]}"),
         ensures=["result == ip_derivative(self._prefactor, self._power, charge_one, charge_two, separation, dirn) * velocity[dirn]"],
         canary="result == 0",
         note="derivative along an arbitrary axis-aligned velocity = standard-velocity derivative times the speed (linear in speed)")

contract(P + "displaced_even_power_potential:DisplacedEvenPowerPotential.standard_velocity_derivative", "C03", model="R",
         params={"separation": "list[float]"}, axioms=POW,
         requires=VEC3 + ["self._power >= 2", "self._equilibrium_separation > 0"],
         ensures=["result == -(self._power * self._prefactor * pow(nrm(separation) - self._equilibrium_separation, self._power - 1) "
                  "* separation[direction] / nrm(separation))"],
         canary="result == 0",
         note="d/dx of k (|s - x e_d| - r0)^n at x = 0 (sign convention: separation = target - active)")

spec("lj_ok(p)", "ip_ok(p._six_power_potential) and ip_ok(p._twelve_power_potential) and p._six_power_potential._power == 6 "
                 "and p._twelve_power_potential._power == 12 and p._characteristic_length > 0 and "
                 "p._six_power_potential._prefactor == -p._prefactor * pow(p._characteristic_length, 6) and "
                 "p._twelve_power_potential._prefactor == p._prefactor * pow(p._characteristic_length, 12)")
contract(P + "lennard_jones_potential:LennardJonesPotential.standard_velocity_derivative", "C03", model="R",
         params={"separation": "list[float]"}, axioms=POW,
         requires=VEC3 + ["lj_ok(self)"],
         # d/dx of k [ (sigma/r)^12 - (sigma/r)^6 ] = k sigma^12 * 12 s_d / r^14 - k sigma^6 * 6 s_d / r^8
         ensures=["result == ip_derivative(self._six_power_potential._prefactor, self._six_power_potential._power, 1, 1, separation, direction) "
                  "+ ip_derivative(self._twelve_power_potential._prefactor, self._twelve_power_potential._power, 1, 1, separation, direction)"],
         canary="result == 0",
         note="sum of the two inverse-power contracts; lemma lj-derivative-is-sum identifies it with d/dx k[(sigma/r)^12 - (sigma/r)^6]")
from pyvc.api import lemma
lemma("lj-derivative-is-sum", "C03", model="R",
      variables={"k": "float", "s6": "float", "s12": "float", "sd": "float", "A": "float", "B": "float"},
      assumes=["A > 0", "B > 0"],   # A = r^8, B = r^14, s6 = sigma^6, s12 = sigma^12
      goal="(-k * s6) * 1 * 1 * 6 * sd / A + (k * s12) * 1 * 1 * 12 * sd / B == k * s12 * 12 * sd / B - k * s6 * 6 * sd / A")

# ---- bending: three per-unit derivatives that sum to zero (translation invariance)
cls("BendingPotential", _equilibrium_angle="float", _prefactor="float")
from pyvc.api import module_global
module_global("jellyfysh.setting", "dimension", "int", ["dimension == 3"])
contract(P + "bending_potential:BendingPotential.standard_velocity_derivative", "C03", model="R",
         params={"separation_one": "list[float]", "separation_two": "list[float]"}, returns="tuple[float,float,float]",
         globals=["dimension"], axioms=POW,
         requires=["len(separation_one) == 3", "len(separation_two) == 3", "0 <= direction < 3",
                   "n2(separation_one) > 0", "n2(separation_two) > 0"],
         assume=["math_sin(math_acos(cosang(separation_one, separation_two))) != 0"],
         ensures=["result[0] + result[1] + result[2] == 0",
                  # outer derivatives: dU/dtheta * dtheta/dcos * dcos/ds_d with U = k/2 (theta - theta0)^2
                  "result[0] == self._prefactor * (math_acos(cosang(separation_one, separation_two)) - self._equilibrium_angle) "
                  "* (-1 / math_sin(math_acos(cosang(separation_one, separation_two)))) "
                  "* (separation_two[direction] / nrm(separation_one) / nrm(separation_two) - cosang(separation_one, separation_two) "
                  "* separation_one[direction] / n2(separation_one))",
                  "result[2] == self._prefactor * (math_acos(cosang(separation_one, separation_two)) - self._equilibrium_angle) "
                  "* (-1 / math_sin(math_acos(cosang(separation_one, separation_two)))) "
                  "* (separation_one[direction] / nrm(separation_one) / nrm(separation_two) - cosang(separation_one, separation_two) "
                  "* separation_two[direction] / n2(separation_two))"],
         canary="result[0] == 0",
         native_gen="def gen(rng):\n    from jellyfysh.potential.bending_potential import BendingPotential\n    return {'self': BendingPotential(equilibrium_angle=rng.choice([1.8, 2.0, 1.2]), prefactor=rng.choice([1.0, 3.0])),\n            'separation_one': [rng.choice([0.3, -0.7, 1.1, 0.2]) for _ in range(3)], 'separation_two': [rng.choice([0.5, -0.4, 0.9, -1.2]) for _ in range(3)], 'direction': rng.randrange(3)}\n",
         trusted=["acos, sin uninterpreted; the straight configuration (sin(theta) = 0) is excluded"])
spec("dot3(a, b)", "a[0] * b[0] + a[1] * b[1] + a[2] * b[2]")
spec("cosang(a, b)", "dot3(a, b) / nrm(a) / nrm(b)")
from pyvc.api import ufunc
ufunc("math_acos", ["float"], "float")
ufunc("math_sin", ["float"], "float")

# ---- the 1/r bounding potential in C (inverse_power_coulomb_bounding_potential.c)
CB = "jellyfysh/potential/inverse_power_coulomb_bounding_potential/inverse_power_coulomb_bounding_potential.c:"
from contracts.axioms import POW as POW2
contract(CB + "derivative", "C03", model="R", axioms=POW2,
         requires=["sx * sx + sy * sy + sz * sz > 0"],
         # d/dx [ pp / |s - x e_x| ] at x = 0  =  pp * sx / |s|^3
         ensures=["result == prefactor_product * sx / ((sx * sx + sy * sy + sz * sz) * sqrt(sx * sx + sy * sy + sz * sz))"],
         canary="result == 0")
contract(CB + "potential", ["C03", "C02"], model="R", axioms=POW2,
         requires=["sx * sx + sy * sy + sz * sz > 0"],
         ensures=["result == prefactor_product / sqrt(sx * sx + sy * sy + sz * sz)"],
         canary="result == 0")


# ---- constructors: the object invariants the contracts above take as preconditions are ESTABLISHED here
contract(P + "abstracts:StandardVelocityInvertiblePotential.__init__", ["C03", "C02"], model="R", assume_only=True,
         params={"kwargs": "any"}, allocates=False,
         modifies=["self._prefactor", "self._number_separation_arguments", "self._number_charge_arguments",
                   "self._potential_change_required"],
         ensures=["self._prefactor == kwargs['prefactor']"],
         note="interface: the cooperative **kwargs chain up to Potential.__init__ stores the prefactor; the rest is "
              "signature introspection (inspect)")
contract(P + "inverse_power_potential:InversePowerPotential.__init__", ["C03", "C02"], model="R",
         params={"power": "float", "prefactor": "float"},
         raises={"ConfigurationError": "not (power > 0)"},
         modifies=["self._prefactor", "self._number_separation_arguments", "self._number_charge_arguments",
                   "self._potential_change_required", "self._power", "self._two_over_power", "self._power_over_two",
                   "self._power_plus_two", "self._infinity"],
         ensures=["ip_ok(self)", "self._power == power", "self._prefactor == prefactor"],
         canary="self._power == 1", native_search=False,
         note="establishes ip_ok for EVERY positive power (integer or not)")

contract(P + "displaced_even_power_potential:DisplacedEvenPowerPotential.__init__", ["C03", "C02"], model="R",
         params={"equilibrium_separation": "float", "power": "int", "prefactor": "float"},
         raises={"ConfigurationError": "not (prefactor > 0) or not (equilibrium_separation > 0) or not (power > 0 and power % 2 == 0)"},
         modifies=["self._prefactor", "self._number_separation_arguments", "self._number_charge_arguments",
                   "self._potential_change_required", "self._power", "self._inverse_power", "self._equilibrium_separation",
                   "self._equilibrium_separation_squared"],
         ensures=["self._power == power and self._power > 0 and self._power % 2 == 0", "self._inverse_power == 1 / power",
                  "self._prefactor == prefactor and self._prefactor > 0",
                  "self._equilibrium_separation == equilibrium_separation and self._equilibrium_separation > 0",
                  "self._equilibrium_separation_squared == equilibrium_separation * equilibrium_separation"],
         canary="self._power == 2", native_search=False,
         note="establishes the object invariant the derivative / displacement contracts assume")
contract(P + "lennard_jones_potential:LennardJonesPotential.__init__", ["C03", "C02"], model="R",
         params={"prefactor": "float", "characteristic_length": "float"},
         raises={"ConfigurationError": "not (prefactor > 0) or not (characteristic_length * pow(2, 1 / 6) > 0)"},
         modifies=["self._prefactor", "self._number_separation_arguments", "self._number_charge_arguments",
                   "self._potential_change_required", "self._six_power_potential", "self._twelve_power_potential",
                   "self._characteristic_length", "self._equilibrium_separation", "self._equilibrium_separation_squared"],
         ensures=["ip_ok(self._six_power_potential) and ip_ok(self._twelve_power_potential)",
                  "self._six_power_potential._power == 6 and self._twelve_power_potential._power == 12",
                  "self._six_power_potential._prefactor == -prefactor * pow(characteristic_length, 6)",
                  "self._twelve_power_potential._prefactor == prefactor * pow(characteristic_length, 12)",
                  "self._characteristic_length == characteristic_length and self._prefactor == prefactor",
                  "fresh(self._six_power_potential) and fresh(self._twelve_power_potential)"],
         canary="self._characteristic_length == 1", native_search=False,
         note="the two inverse-power parts carry -k sigma^6 and +k sigma^12")


# ---- the merged-image (Ewald) Coulomb potential: a triple lattice sum in C with erfc / exp / trigonometric recurrences -
# BOUNDED native check (never counted as proved): the value equals an independent Ewald sum computed with a DIFFERENT
# splitting parameter and larger cut-offs (convergence + alpha-independence) and is periodic, for integer and
# non-integer box lengths
EWGEN = ("def gen(rng):\n"
         "    import jellyfysh.setting as setting\n"
         "    from jellyfysh.setting import hypercubic_setting\n"
         "    L = rng.choice([1.0, 1.5, 2.7, 3.7, 10.0, 0.8])\n"
         "    if getattr(gen, 'L', None) != L:\n"
         "        setting.reset()\n"
         "        hypercubic_setting.HypercubicSetting(beta=1.0, dimension=3, system_length=L)\n"
         "        setting.set_number_of_root_nodes(2); setting.set_number_of_nodes_per_root_node(1); setting.set_number_of_node_levels(1)\n"
         "        from jellyfysh.potential.merged_image_coulomb_potential.merged_image_coulomb_potential import MergedImageCoulombPotential\n"
         "        gen.pot = MergedImageCoulombPotential()\n"
         "        gen.L = L\n"
         "    s = [rng.uniform(-L / 2, L / 2) for _ in range(3)]\n"
         "    if rng.random() < 0.2:\n"
         "        s[rng.randrange(3)] = rng.choice([-0.4999, 0.4999]) * L\n"
         "    v = [0.0, 0.0, 0.0]\n"
         "    v[rng.randrange(3)] = rng.choice([1.0, 1.0, 0.5, 2.0])\n"
         "    return {'self': gen.pot, 'velocity': v, 'separation': s, 'charge_one': rng.choice([1.0, -1.0, 0.41]), 'charge_two': rng.choice([1.0, -0.82, 2.0])}\n")
contract(P + "merged_image_coulomb_potential.merged_image_coulomb_potential:MergedImageCoulombPotential.derivative", "C03",
         model="R", tag="native", native_gen=EWGEN,
         params={"velocity": "list[float]", "separation": "list[float]", "charge_one": "float", "charge_two": "float"},
         requires=["separation[0] * separation[0] + separation[1] * separation[1] + separation[2] * separation[2] > 1e-4"],
         ensures=["native: ewald_ok(self, velocity, separation, charge_one, charge_two, result)"],
         ghost={"bounded_only": True, "varargs": [("separation", "list[float]"), ("charge_one", "float"), ("charge_two", "float")]},
         note="bounded stand-in for the Ewald clauses (convergence, alpha-independence, periodicity): six box lengths "
              "incl. non-integer ones, three directions, speeds 0.5..2, several charge products")
