"""Library lemmas about CPython float semantics, proved bit-precisely (model F) as units of their own and then
used as summaries inside function proofs (contract option lemmas_used=[...])."""
import time

import z3

from pyvc.core import Ctx, MODELS
from pyvc.interp import Interp, Explorer
from pyvc.runner import UnitResult, classify
from pyvc.discharge import discharge


def divmod1_lemma(prop, tier, seed, timeout_ms, only=None, **_):
    """For every double 0 <= x <= 2^53: the float_divmod encoding (CPython Objects/floatobject.c) of divmod(x, 1.0)
    returns (floor(x), x - floor(x)); the subtraction is exact, the remainder lies in [0,1) and floor + remainder == x."""
    if only and "divmod1" not in only:
        return []
    num = MODELS["F"]
    res = UnitResult("lemma:cpython-float-divmod-by-one", kind="lemma")
    res.model_name = "F"
    res.props = [prop]
    res.trusted = ["cpython_float_divmod: float_divmod(x, 1.0) encoded from Objects/floatobject.c with "
                   "fmod(x, 1.0) = x - trunc(x) (fmod is exact by C99 7.12.10.1)"]
    t0 = time.time()
    ex = Explorer(None)
    ctx = Ctx(num, [], 0, ex)
    it = Interp(ctx, ex, None)
    x = z3.FP("x", z3.Float64())
    ctx.assume(z3.And(z3.fpLEQ(num.const(0.0), x), z3.fpLEQ(x, num.const(2.0 ** 53))))
    q, m = it.float_divmod(x, num.const(1.0), True)
    fl = z3.fpRoundToIntegral(z3.RTN(), x)
    ms = z3.fpSub(z3.RNE(), x, fl)
    goals = {
        "quotient-is-floor": z3.fpEQ(q, fl),
        "remainder-is-x-minus-floor": z3.fpEQ(m, ms),
        "subtraction-exact": z3.fpEQ(z3.fpSub(z3.RTP(), x, fl), z3.fpSub(z3.RTN(), x, fl)),
        "remainder-in-[0,1)": z3.And(z3.fpLEQ(num.const(0.0), ms), z3.fpLT(ms, num.const(1.0))),
        "floor-plus-remainder-exact-up": z3.fpEQ(z3.fpAdd(z3.RTP(), fl, ms), x),
        "floor-plus-remainder-exact-down": z3.fpEQ(z3.fpAdd(z3.RTN(), fl, ms), x),
    }
    ctx.oblige("divmod1/cover", z3.BoolVal(False), "cover", True)
    for k, g in goals.items():
        ctx.oblige("divmod1/" + k, g, kind="lemma")
    res.obligations = ctx.obligations
    res.paths = 1
    discharge(res.obligations, timeout_ms=max(timeout_ms, 300000))
    classify(res)
    res.seconds = time.time() - t0
    return [res]
