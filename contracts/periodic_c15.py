"""C15 - periodic wrapping and minimum-image separations (both PeriodicBoundaries implementations)."""
from pyvc.api import contract, spec, module_global, lemma, LoopSpec

CUBIC = "jellyfysh.setting.hypercubic_setting"
CUBOID = "jellyfysh.setting.hypercuboid_setting"

module_global(CUBIC, "system_length", "float", ["system_length > 0", "finite(system_length)"])
module_global(CUBIC, "system_length_over_two", "float", ["system_length_over_two == system_length / 2.0"])
module_global(CUBIC, "dimension", "int", ["dimension >= 1"])
module_global(CUBOID, "system_lengths", "list[float]",
              ["len(system_lengths) == dimension", "forall(0, dimension, lambda i: system_lengths[i] > 0 and finite(system_lengths[i]))"])
module_global(CUBOID, "system_lengths_over_two", "list[float]",
              ["len(system_lengths_over_two) == dimension",
               "forall(0, dimension, lambda i: system_lengths_over_two[i] == system_lengths[i] / 2.0)"])
module_global(CUBOID, "dimension", "int", ["dimension >= 1"])

# x and y are congruent modulo L (reals)
spec("congruent(x, y, L)", "exists(lambda k: x - y == k * L)")

for MOD, CLS, LEN, HALF, IDX in (
        (CUBIC, "HypercubicPeriodicBoundaries", "system_length", "system_length_over_two", "_"),
        (CUBOID, "HypercuboidPeriodicBoundaries", "system_lengths[index]", "system_lengths_over_two[index]", "index")):
    Q = "%s:%s." % (MOD, CLS)
    # the settings' length tuples are immutable; a mutable argument list cannot be one of them
    NOALIAS = (lambda p: []) if MOD == CUBIC else \
        (lambda p: ["not same(%s, system_lengths)" % p, "not same(%s, system_lengths_over_two)" % p])
    idx_req = [] if MOD == CUBIC else ["0 <= index < dimension"]
    G = ["system_length", "system_length_over_two"] if MOD == CUBIC else ["dimension", "system_lengths", "system_lengths_over_two"]
    # --- bit-precise range / idempotence (model F)
    contract(Q + "correct_position_entry", "C15", tag="F", model="F", globals=G,
             requires=idx_req + ["not isinf(position_entry)", "not isnan(position_entry)"],
             ensures=["0 <= result < %s" % LEN],
             canary="result == 0",
             trusted=["cpython_float_rem: x %% y encoded from float_rem (fmod, then one rounded add of y when the signs "
                      "differ); fmod abstracted by: exact, |m| < |y|, sign of x, m == x when |x| < |y|"],
             note="the unique representative lies in [0, L): includes tiny negative inputs")
    contract(Q + "correct_position_entry", "C15", tag="Fidem", model="F", globals=G,
             requires=idx_req + ["0 <= position_entry < %s" % LEN],
             ensures=["result == position_entry"], canary="result == 0",
             note="idempotence: a value already in [0, L) is returned unchanged")
    contract(Q + "correct_separation_entry", "C15", tag="F", model="F", globals=G,
             requires=idx_req + ["not isinf(separation_entry)", "not isnan(separation_entry)",
                                 "abs(separation_entry) <= 2**1000"],
             ensures=["abs(result) <= %s" % HALF], canary="result >= 0")
    # --- congruence and uniqueness (model R)
    contract(Q + "correct_position_entry", "C15", model="R", globals=G,
             requires=idx_req,
             ensures=["0 <= result < %s" % LEN, "congruent(result, position_entry, %s)" % LEN],
             canary="result == position_entry")
    contract(Q + "correct_separation_entry", "C15", model="R", globals=G,
             requires=idx_req,
             ensures=["-(%s) <= result < %s" % (HALF, HALF), "congruent(result, separation_entry, %s)" % LEN],
             canary="result == separation_entry")
    contract(Q + "next_image", "C15", model="R", globals=G,
             requires=(["0 <= direction < dimension"] if MOD == CUBOID else []),
             ensures=["result == position_entry + %s" % LEN.replace("index", "direction")], canary="result == 0")
    LEN_J = LEN.replace("index", "j")
    HALF_J = HALF.replace("index", "j")
    contract(Q + "correct_position", "C15", model="R", globals=G, params={"position": "list[float]"},
             requires=["len(position) == dimension" if MOD == CUBOID else "len(position) >= 0"] + NOALIAS("position"),
             modifies=["contents(position)"],
             ensures=["len(position) == old(len(position))",
                      "forall(0, len(position), lambda j: 0 <= position[j] < %s and congruent(position[j], old(position[j]), %s))" % (LEN_J, LEN_J)],
             loops={0: LoopSpec(modifies=["contents(position)"], invariant=[
                 "len(position) == old(len(position))",
                 "forall(0, index, lambda j: 0 <= position[j] < %s and congruent(position[j], old(position[j]), %s))" % (LEN_J, LEN_J),
                 "forall(index, len(position), lambda j: position[j] == old(position[j]))"])},
             canary="len(position) == 0")
    contract(Q + "correct_separation", "C15", model="R", globals=G, params={"separation": "list[float]"},
             requires=["len(separation) == dimension" if MOD == CUBOID else "len(separation) >= 0"] + NOALIAS("separation"),
             modifies=["contents(separation)"],
             ensures=["len(separation) == old(len(separation))",
                      "forall(0, len(separation), lambda j: -(%s) <= separation[j] < %s and congruent(separation[j], old(separation[j]), %s))" % (HALF_J, HALF_J, LEN_J)],
             loops={0: LoopSpec(modifies=["contents(separation)"], invariant=[
                 "len(separation) == old(len(separation))",
                 "forall(0, index, lambda j: -(%s) <= separation[j] < %s and congruent(separation[j], old(separation[j]), %s))" % (HALF_J, HALF_J, LEN_J),
                 "forall(index, len(separation), lambda j: separation[j] == old(separation[j]))"])},
             canary="len(separation) == 0")
    contract(Q + "separation_vector", "C15", model="R", globals=G + (["dimension"] if MOD == CUBIC else []),
             params={"reference_position": "list[float]", "target_position": "list[float]"}, returns="list[float]",
             requires=["len(reference_position) == dimension", "len(target_position) == dimension"],
             ensures=["len(result) == dimension", "fresh(result)",
                      "forall(0, dimension, lambda j: -(%s) <= result[j] < %s and "
                      "congruent(result[j], target_position[j] - reference_position[j], %s))" % (HALF_J, HALF_J, LEN_J)],
             canary="len(result) == 0")

# uniqueness: range + congruence pin the value, hence any two implementations satisfying the contracts agree
lemma("unique-representative", "C15", model="R", variables={"a": "float", "b": "float", "x": "float", "L": "float"},
      assumes=["L > 0", "0 <= a < L", "0 <= b < L", "congruent(a, x, L)", "congruent(b, x, L)"], goal="a == b",
      note="cubic and cuboid correct_position_entry agree when the lengths are equal (both satisfy the same contract)")
lemma("unique-minimum-image", "C15", model="R",
      variables={"a": "float", "b": "float", "L": "float", "h": "float", "n": "int"},
      # a - b == n*L with n = k1 - k2 is the difference of the two congruences (polynomial identity)
      assumes=["L > 0", "h * 2 == L", "-h <= a < h", "-h <= b < h", "a - b == n * L"],
      goal="a == b", note="cubic and cuboid correct_separation_entry agree")
lemma("idempotent-from-contract", "C15", model="R", variables={"a": "float", "b": "float", "x": "float", "L": "float"},
      assumes=["L > 0", "0 <= a < L", "congruent(a, x, L)", "0 <= b < L", "congruent(b, a, L)"], goal="b == a",
      note="correct(correct(x)) == correct(x) follows from the postcondition alone")
