"""C18 - Walker alias table (jellyfysh.event_handler.walker).  Model R.
sample_cell / total_rate are verified against the table's representation invariant; that _build_table ESTABLISHES the
invariant for every rate vector (list surgery with pop/append on three lists and in-place mutation of the items) is
checked natively on generated rate vectors (bounded stand-in, labelled)."""
from pyvc.api import cls, spec, contract

W = "jellyfysh.event_handler.walker:Walker."
cls("WalkerItem", item="any", rate="float")
cls("Walker", _total_rate="float", _mean_rate="float", _table="list[tuple[WalkerItem,opt[WalkerItem]]]")

# a row holds one share (a full row: its rate is the mean) or two shares that add up to the mean
spec("row_ok(w, j)", "w._table[j][0] is not None and 0 <= w._table[j][0].rate and w._table[j][0].rate <= w._mean_rate and "
                     "implies(w._table[j][1] is None, w._table[j][0].rate == w._mean_rate) and "
                     "implies(w._table[j][1] is not None, w._table[j][1].rate == w._mean_rate - w._table[j][0].rate)")
spec("table_ok(w)", "w._mean_rate > 0 and len(w._table) >= 1 and forall(0, len(w._table), lambda j: row_ok(w, j))")

contract(W + "sample_cell", "C18", model="R", returns="any",
         requires=["table_ok(self)"],
         ensures=[
             # row draw0 (uniform over rows), then its first share iff the second draw u in [0, mean] is at most that
             # share's mass: P(first share) = share / mean, P(second) = (mean - share) / mean - exact alias sampling
             "0 <= draw0 < len(self._table) and 0 <= draw1 <= self._mean_rate",
             "implies(draw1 <= self._table[draw0][0].rate, same(result, self._table[draw0][0].item))",
             "implies(draw1 > self._table[draw0][0].rate, self._table[draw0][1] is not None and "
             "same(result, self._table[draw0][1].item))"],
         canary="same(result, self._table[0][0].item)", ghost={"draws": ["choice", "uniform"]},
         note="no IndexError: a one-share row has the full mean as its rate, so the second share is never asked for")

# a share with zero mass is never selected - for the WHOLE closed range of the draw
contract(W + "sample_cell", "C18", tag="zero", model="R", returns="any",
         requires=["table_ok(self)"],
         ensures=["implies(draw1 <= self._table[draw0][0].rate, self._table[draw0][0].rate > 0)",
                  "implies(draw1 > self._table[draw0][0].rate, self._table[draw0][1].rate > 0)"],
         canary="draw1 == 0",
         note="cells with zero rate are never selected")

contract(W + "total_rate", "C18", model="R", returns="float", ensures=["result == self._total_rate"], canary="result == 0")

# ---- _build_table / __init__ : bounded (native) - the table invariant, mass conservation per item, total and mean
BUILD_GEN = ("def gen(rng):\n"
             "    from jellyfysh.event_handler.walker import WalkerItem\n"
             "    n = rng.choice([1, 2, 3, 4, 5, 7, 12])\n"
             "    mode = rng.randrange(5)\n"
             "    if mode == 0:\n"
             "        pool = rng.choice([[0.0, 1.0, 3.0], [1.0], [0.5, 0.25, 2.0, 0.0, 7.5, 1e-6], [1.0, 1.0, 2.0], [0.0, 0.0, 5.0, 1e3]])\n"
             "        rates = [rng.choice(pool) for _ in range(n)]\n"
             "    elif mode == 1:    # equal rates: the float mean may round below or above the common rate\n"
             "        r = rng.choice([0.7, 0.1, 0.3, 1.0 / 3.0, 2.2, 1e-7, 123456.789, rng.uniform(0.01, 10.0)])\n"
             "        rates = [r] * n\n"
             "    elif mode == 2:\n"
             "        rates = [rng.uniform(0.0, 10.0) for _ in range(n)]\n"
             "    elif mode == 3:    # widely differing magnitudes\n"
             "        rates = [10.0 ** rng.uniform(-9, 9) for _ in range(n)]\n"
             "    else:              # several items exactly at the mean, some zeros\n"
             "        r = rng.choice([0.7, 1.0, 0.3])\n"
             "        rates = [rng.choice([r, r, 0.0, 2 * r]) for _ in range(n)]\n"
             "    if sum(rates) == 0:\n"
             "        rates[0] = 1.0\n"
             "    return {'walker_items': [WalkerItem(('cell', i), r) for i, r in enumerate(rates)], 'rates': list(rates)}\n")
contract(W + "__init__", "C18", model="R", tag="native", params={"walker_items": "list[WalkerItem]"},
         native_gen=BUILD_GEN.replace("return {", "import jellyfysh.event_handler.walker as w\n    return {'self': object.__new__(w.Walker), "),
         requires=["len(walker_items) >= 1"],
         ensures=["native: walker_table_exact(self, rates)"],
         ghost={"bounded_only": True, "params": {"rates": "list[float]"}},
         note="bounded stand-in: len(table) == n, every row's shares add up to the mean, every item's shares add up to its "
              "rate, total == sum, mean == total / n")
