"""C07 / C11 - the cell-boundary event handler: the candidate time is the time stamp of the unit on the cell level plus
the SMALLEST time at which one of its moving coordinates reaches the boundary of the neighbouring cell in its direction
of motion (through the periodic image of that boundary if it lies behind the unit, with the box length OF THAT
DIRECTION); the recorded direction / boundary are those of the minimum.  Model R.
Cells enter through interface contracts (C16 decides them for the cuboid grids)."""
from pyvc.api import cls, spec, contract, ufunc, LoopSpec
import contracts.handlers_c07    # noqa  (settings, Time, Unit, Node)
import contracts.cellveto_c18    # noqa  (Cell, PeriodicCells, cell_of)

H = "jellyfysh.event_handler.cell_boundary_event_handler:CellBoundaryEventHandler."
cls("Cell", _identifier="any", _cell_min="list[float]", _cell_max="list[float]")
cls("CellBoundaryEventHandler", _cells="PeriodicCells", _cell_level="int", _relevant_unit="opt[Unit]", _boundary="float",
    _direction="int", _event_time="opt[Time]", _state="opt[list[Node]]")
ufunc("nb_cell", ["any", "any", "int", "int"], "any")
spec("in_box(x, d)", "0 <= x and x <= box_length(d)")
contract("jellyfysh.activator.internal_state.cell_occupancy.cells.cells:Cells.neighbor_cell", ["C07", "C11"], model="R",
         assume_only=True, params={"cell": "Cell", "direction": "int", "positive": "bool"}, returns="opt[Cell]",
         allocates=False,
         ensures=["same(result, obj(nb_cell(self, cell, direction, ite(positive, 1, 0)), 'Cell'))", "result is not None",
                  "allocated_before(result)", "len(result._cell_min) == 3 and len(result._cell_max) == 3",
                  "forall(0, 3, lambda d: in_box(result._cell_min[d], d) and in_box(result._cell_max[d], d))"],
         note="interface: a periodic cell system has a neighbour in every direction; its extent lies in the box")

# time until coordinate d of unit u (in cell c) reaches the neighbouring cell's boundary
spec("nbc(h, c, d, p)", "obj(nb_cell(h._cells, c, d, p), 'Cell')")
spec("dpos(h, u, c, d)", "ite(nbc(h, c, d, 1)._cell_min[d] - u.position[d] < 0, "
                         "nbc(h, c, d, 1)._cell_min[d] - u.position[d] + box_length(d), nbc(h, c, d, 1)._cell_min[d] - u.position[d])")
spec("dneg(h, u, c, d)", "ite(u.position[d] - nbc(h, c, d, 0)._cell_max[d] < 0, "
                         "u.position[d] - nbc(h, c, d, 0)._cell_max[d] + box_length(d), u.position[d] - nbc(h, c, d, 0)._cell_max[d])")
spec("t_of(h, u, c, d)", "ite(u.velocity[d] > 0, dpos(h, u, c, d) / u.velocity[d], "
                         "ite(u.velocity[d] < 0, dneg(h, u, c, d) / abs(u.velocity[d]), inf))")
spec("bnd_of(h, u, c, d)", "ite(u.velocity[d] > 0, nbc(h, c, d, 1)._cell_min[d], nbc(h, c, d, 0)._cell_max[d])")
spec("m1(h, u, c)", "ite(t_of(h, u, c, 0) < inf, t_of(h, u, c, 0), inf)")
spec("m2(h, u, c)", "ite(t_of(h, u, c, 1) < m1(h, u, c), t_of(h, u, c, 1), m1(h, u, c))")
spec("m3(h, u, c)", "ite(t_of(h, u, c, 2) < m2(h, u, c), t_of(h, u, c, 2), m2(h, u, c))")
spec("tmin(h, u, c, k)", "ite(k <= 0, inf, ite(k == 1, m1(h, u, c), ite(k == 2, m2(h, u, c), m3(h, u, c))))")

contract(H + "send_event_time", ["C07", "C11"], model="R", params={"in_states": "list[Node]"}, returns="Time",
         globals=["dimension", "periodic_boundaries"],
         requires=["self._cells is not None", "glob('jellyfysh.setting.hypercuboid_setting', 'dimension') == 3",
                   # C07's standing invariant: every unit is in the box, every moving unit has a 3-vector velocity and a
                   # normalised time stamp
                   "forall(lambda n: implies(n > 0, len(obj(n, 'Unit').position) == 3 and "
                   "forall(0, 3, lambda d: 0 <= obj(n, 'Unit').position[d] and obj(n, 'Unit').position[d] < box_length(d)) and "
                   "implies(obj(n, 'Unit').velocity is not None, len(obj(n, 'Unit').velocity) == 3 and "
                   "obj(n, 'Unit').time_stamp is not None and fin(obj(n, 'Unit').time_stamp))), "
                   "trigger=lambda n: obj(n, 'Unit').position)"],
         inline=["_store_in_state"],
         loops={0: LoopSpec(invariant=["allocated_before(cnode)"], modifies=[]),
                1: LoopSpec(invariant=[
                    "current_smallest_time_to_boundary == tmin(self, self._relevant_unit, cell, direction)",
                    "current_smallest_time_to_boundary <= inf", "current_smallest_time_to_boundary >= 0",
                    "implies(current_smallest_time_to_boundary < inf, 0 <= self._direction and self._direction < direction and "
                    "self._relevant_unit.velocity[self._direction] != 0 and "
                    "current_smallest_time_to_boundary == t_of(self, self._relevant_unit, cell, self._direction) and "
                    "self._boundary == bnd_of(self, self._relevant_unit, cell, self._direction))"],
                    modifies=["self._boundary", "self._direction"])},
         modifies=["self._state", "self._relevant_unit", "self._boundary", "self._direction", "self._event_time"],
         may_raise={"AssertionError": [], "IndexError": []},
         ensures=[
             "self._relevant_unit is not None and 0 <= self._direction < 3",
             # the candidate time: the earliest boundary crossing over the three directions
             "let(lambda u, c: val(result) == val(u.time_stamp) + tmin(self, u, c, 3) and "
             "tmin(self, u, c, 3) == t_of(self, u, c, self._direction) and "
             "self._boundary == bnd_of(self, u, c, self._direction) and u.velocity[self._direction] != 0, "
             "self._relevant_unit, obj(cell_of(self._cells, self._relevant_unit.position), 'Cell'))",
             "same(result, self._event_time)"],
         native_search=False,
         note="C07.2 / C11.3: a cell-boundary event happens exactly when the unit reaches the neighbouring cell")

contract(H + "send_out_state", ["C07", "C11"], model="R", returns="opt[list[Node]]",
         requires=["self._relevant_unit is not None", "len(self._relevant_unit.position) == 3", "0 <= self._direction < 3",
                   "self._state is not None"],
         modifies=["allcontents(float)", "ALL._quotient", "ALL._remainder"],
         ensures=[
             # the unit is put exactly ON the boundary computed by send_event_time (no rounding residue keeps it in the
             # old cell), in the recorded direction only
             "self._relevant_unit.position[self._direction] == self._boundary",
             "same(result, self._state)"],
         canary="self._boundary == 0", native_search=False,
         note="C11.3: after a cell-boundary event the coordinate equals the neighbouring cell's boundary; everything else "
              "is time slicing (interface: _time_slice_unit on every unit of the in-state, verified separately)")
