"""C12 - the one arithmetic step behind "composite velocity = weighted sum of its point masses' velocities":
LeavesEventHandler._register_velocity_change_leaf_cnode, for TWO-LEVEL branches (leaf -> root; every shipped input
handler builds these).  Model R.  Everything else of C12 is a bounded stand-in."""
from pyvc.api import cls, spec, contract, ufunc, LoopSpec
import contracts.handlers_c07    # noqa  (settings, Unit, Node)

ufunc("node_weight", ["any"], "float")
contract("jellyfysh.base.node:Node.weight", "C12", model="R", assume_only=True, returns="float", allocates=False,
         ensures=["result == node_weight(self)"],
         note="interface: the weight stored at construction (or 1 / number of siblings); reached through a bound-method attribute")
cls("LeavesEventHandler", _non_leaf_velocity_changes="dict[list[int],list[float]]")
L = "jellyfysh.event_handler.abstracts.abstracts:LeavesEventHandler."
contract(L + "_register_velocity_change_leaf_cnode", "C12", model="R",
         params={"leaf_cnode": "Node", "leaf_velocity_change": "list[float]"}, globals=["dimension"],
         requires=["len(leaf_velocity_change) == 3", "self._non_leaf_velocity_changes is not None",
                   # two-level branch: the parent (if any) is a root; an extracted root cnode has weight one
                   "implies(leaf_cnode.parent is not None, leaf_cnode.parent.parent is None and "
                   "node_weight(leaf_cnode.parent) == 1 and leaf_cnode.parent.value is not None)",
                   # registered changes are 3-vectors, distinct from the argument
                   "forall(lambda k: implies(has(self._non_leaf_velocity_changes, obj(k, 'list[int]')), "
                   "len(get(self._non_leaf_velocity_changes, obj(k, 'list[int]'))) == 3 and "
                   "not same(get(self._non_leaf_velocity_changes, obj(k, 'list[int]')), leaf_velocity_change)))"],
         loops={0: LoopSpec(invariant=["parent_cnode is None or same(parent_cnode, leaf_cnode.parent)"], unroll=2)},
         modifies=["dictof(self._non_leaf_velocity_changes)", "allcontents(float)"],
         ensures=[
             # a leaf without parent registers nothing
             "implies(leaf_cnode.parent is None, forall(0, 3, lambda d: leaf_velocity_change[d] == old(leaf_velocity_change[d])))",
             # the composite object's pending change grows by weight x (change of the leaf), per component
             "implies(leaf_cnode.parent is not None, has(self._non_leaf_velocity_changes, leaf_cnode.parent.value.identifier) and "
             "forall(0, 3, lambda d: get(self._non_leaf_velocity_changes, leaf_cnode.parent.value.identifier)[d] == "
             "old(ite(has(self._non_leaf_velocity_changes, leaf_cnode.parent.value.identifier), "
             "get(self._non_leaf_velocity_changes, leaf_cnode.parent.value.identifier)[d], 0) + "
             "leaf_velocity_change[d] * node_weight(leaf_cnode))))",
             # the caller's vector (often the active unit's velocity itself) is unchanged: root weight one
             "forall(0, 3, lambda d: leaf_velocity_change[d] == old(leaf_velocity_change[d]))"],
         canary="leaf_cnode.parent is None", native_search=False,
         note="C12.1 for two-level trees; for deeper trees the code scales its ARGUMENT by the parents' weights instead of "
              "the accumulated change (latent, see DESIGN section 6 observations) - outside this contract's precondition")

# ---- the same hand-over inside / between composite objects (two-level branches: leaf -> root with weight one)
contract("jellyfysh.event_handler.abstracts.abstracts:SingleActiveLeafUnitEventHandler._exchange_velocity",
         ["C07", "C12"], model="R", tag="handover2", params={"cnode_with_active_unit": "Node", "target_cnode": "Node"},
         globals=["dimension"],
         inline=["_register_velocity_change_leaf_cnode"],
         requires=["cnode_with_active_unit.parent is not None", "target_cnode.parent is not None",
                   "cnode_with_active_unit.parent.parent is None", "target_cnode.parent.parent is None",
                   "cnode_with_active_unit.parent.value is not None", "target_cnode.parent.value is not None",
                   "node_weight(cnode_with_active_unit.parent) == 1", "node_weight(target_cnode.parent) == 1",
                   "self._leaf_units is not None", "cnode_with_active_unit.value is not None", "target_cnode.value is not None",
                   "self._non_leaf_velocity_changes is not None",
                   "implies(cnode_with_active_unit.value.velocity is not None, len(cnode_with_active_unit.value.velocity) == 3)",
                   # identifiers of the leaves are not those of the roots; nothing is pending for the leaves
                   "not same(cnode_with_active_unit.value.identifier, cnode_with_active_unit.parent.value.identifier)",
                   "not same(cnode_with_active_unit.value.identifier, target_cnode.parent.value.identifier)",
                   "not same(target_cnode.value.identifier, cnode_with_active_unit.parent.value.identifier)",
                   "not same(target_cnode.value.identifier, target_cnode.parent.value.identifier)",
                   "not has(self._non_leaf_velocity_changes, cnode_with_active_unit.value.identifier)",
                   "not has(self._non_leaf_velocity_changes, target_cnode.value.identifier)",
                   "forall(lambda k: implies(has(self._non_leaf_velocity_changes, obj(k, 'list[int]')), "
                   "len(get(self._non_leaf_velocity_changes, obj(k, 'list[int]'))) == 3 and "
                   "not same(get(self._non_leaf_velocity_changes, obj(k, 'list[int]')), cnode_with_active_unit.value.velocity)))"],
         may_raise={"AssertionError": []},
         modifies=["self._non_leaf_velocity_changes", "dictof(self._non_leaf_velocity_changes)", "ALL.velocity", "ALL.time_stamp", "allcontents(float)"],
         ensures=[
             "same(target_cnode.value.velocity, old(cnode_with_active_unit.value.velocity))",
             "target_cnode.value.velocity is not None",
             "forall(0, 3, lambda d: target_cnode.value.velocity[d] == old(cnode_with_active_unit.value.velocity[d]))",
             "same(target_cnode.value.time_stamp, old(cnode_with_active_unit.value.time_stamp))",
             "cnode_with_active_unit.value.velocity is None and cnode_with_active_unit.value.time_stamp is None"],
         canary="target_cnode.value.velocity is None", native_search=False, ghost={"unit_only": True},
         note="C07/C12: a lifting between point masses of composite objects hands the velocity over unchanged")
