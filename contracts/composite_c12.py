"""C12 - the one arithmetic step behind "composite velocity = weighted sum of its point masses' velocities":
LeavesEventHandler._register_velocity_change_leaf_cnode, for TWO-LEVEL branches (leaf -> root; every shipped input
handler builds these).  Model R.  Everything else of C12 is a bounded stand-in."""
from pyvc.api import cls, spec, contract, ufunc, LoopSpec
import contracts.handlers_c07    # noqa  (settings, Unit, Node)

ufunc("node_weight", ["any"], "float")
contract("jellyfysh.base.node:Node.weight", "C12", model="R", assume_only=True, returns="float", allocates=False,
         ensures=["result == node_weight(self)"],
         note="interface: the weight stored at construction (or 1 / number of siblings); reached through a bound-method attribute")
cls("LeavesEventHandler", _non_leaf_velocity_changes="dict[list[int],list[float]]")
L = "jellyfysh.event_handler.abstracts.abstracts:LeavesEventHandler."
contract(L + "_register_velocity_change_leaf_cnode", "C12", model="R",
         params={"leaf_cnode": "Node", "leaf_velocity_change": "list[float]"}, globals=["dimension"],
         requires=["len(leaf_velocity_change) == 3", "self._non_leaf_velocity_changes is not None",
                   # two-level branch: the parent (if any) is a root; an extracted root cnode has weight one
                   "implies(leaf_cnode.parent is not None, leaf_cnode.parent.parent is None and "
                   "node_weight(leaf_cnode.parent) == 1 and leaf_cnode.parent.value is not None)",
                   # registered changes are 3-vectors, distinct from the argument
                   "forall(lambda k: implies(has(self._non_leaf_velocity_changes, obj(k, 'list[int]')), "
                   "len(get(self._non_leaf_velocity_changes, obj(k, 'list[int]'))) == 3 and "
                   "not same(get(self._non_leaf_velocity_changes, obj(k, 'list[int]')), leaf_velocity_change)))"],
         loops={0: LoopSpec(invariant=["parent_cnode is None or same(parent_cnode, leaf_cnode.parent)"], unroll=2)},
         modifies=["dictof(self._non_leaf_velocity_changes)", "allcontents(float)"],
         ensures=[
             # a leaf without parent registers nothing
             "implies(leaf_cnode.parent is None, forall(0, 3, lambda d: leaf_velocity_change[d] == old(leaf_velocity_change[d])))",
             # the composite object's pending change grows by weight x (change of the leaf), per component
             "implies(leaf_cnode.parent is not None, has(self._non_leaf_velocity_changes, leaf_cnode.parent.value.identifier) and "
             "forall(0, 3, lambda d: get(self._non_leaf_velocity_changes, leaf_cnode.parent.value.identifier)[d] == "
             "old(ite(has(self._non_leaf_velocity_changes, leaf_cnode.parent.value.identifier), "
             "get(self._non_leaf_velocity_changes, leaf_cnode.parent.value.identifier)[d], 0) + "
             "leaf_velocity_change[d] * node_weight(leaf_cnode))))",
             # the caller's vector (often the active unit's velocity itself) is unchanged: root weight one
             "forall(0, 3, lambda d: leaf_velocity_change[d] == old(leaf_velocity_change[d]))"],
         canary="leaf_cnode.parent is None", native_search=False,
         note="C12.1 for two-level trees; for deeper trees the code scales its ARGUMENT by the parents' weights instead of "
              "the accumulated change (latent, see DESIGN section 6 observations) - outside this contract's precondition")
