"""C02 - candidate event distance inverts the cumulative uphill energy (closed-form potentials, model R)."""
from pyvc.api import cls, spec, contract, lemma
from contracts.axioms import POW
import contracts.potentials_c03   # noqa: class declarations, n2 / nrm, ip_ok

P = "jellyfysh.potential."
V = "jellyfysh.base.vectors:"
cls("HardSpherePotential", _diameter_squared="float")

# ------------------------------------------------------------------------------------------- vector helpers
spec("rest2(v, d)", "n2(v) - v[d] * v[d]")
contract(V + "displacement_until_new_norm_sq_component_positive", "C02", model="R", params={"old_vector": "list[float]"},
         requires=["len(old_vector) == 3", "0 <= translation_direction < 3", "old_vector[translation_direction] > 0"],
         raises={"ValueError": "norm_sq_of_new_vector - rest2(old_vector, translation_direction) < 0"},
         ensures=[
             # x is the displacement along +e_d after which the vector (s - x e_d) has the wanted squared norm, reached
             # from the positive side: s_d - x >= 0
             "(old_vector[translation_direction] - result) * (old_vector[translation_direction] - result) + "
             "rest2(old_vector, translation_direction) == norm_sq_of_new_vector",
             "old_vector[translation_direction] - result >= 0"],
         canary="result == 0")
contract(V + "displacement_until_new_norm_sq_component_negative", "C02", model="R", params={"old_vector": "list[float]"},
         requires=["len(old_vector) == 3", "0 <= translation_direction < 3", "old_vector[translation_direction] <= 0"],
         raises={"ValueError": "norm_sq_of_new_vector - rest2(old_vector, translation_direction) < 0"},
         ensures=["(old_vector[translation_direction] - result) * (old_vector[translation_direction] - result) + "
                  "rest2(old_vector, translation_direction) == norm_sq_of_new_vector",
                  "old_vector[translation_direction] - result <= 0"],
         canary="result == 0")

# the same helpers in two dimensions and in one (setting.dimension is free): the transverse part is what remains
for _tag, _n, _rest in (("2d", 2, "old_vector[1 - translation_direction] * old_vector[1 - translation_direction]"), ("1d", 1, "0")):
    for _name, _side, _cmp in (("positive", "old_vector[translation_direction] > 0", ">="), ("negative", "old_vector[translation_direction] <= 0", "<=")):
        contract(V + "displacement_until_new_norm_sq_component_" + _name, "C02", tag=_tag, model="R", params={"old_vector": "list[float]"},
                 requires=["len(old_vector) == %d" % _n, "0 <= translation_direction < %d" % _n, _side],
                 raises={"ValueError": "norm_sq_of_new_vector - (%s) < 0" % _rest},
                 ensures=["(old_vector[translation_direction] - result) * (old_vector[translation_direction] - result) + "
                          "(%s) == norm_sq_of_new_vector" % _rest,
                          "old_vector[translation_direction] - result %s 0" % _cmp],
                 canary="result == 0", note="dimension %d" % _n)

# ---------------------------------------------------------------------------------------------- hard spheres
spec("sep_at(s, v, t, i)", "s[i] - v[i] * t")
spec("dist2_at(s, v, t)", "sep_at(s, v, t, 0) * sep_at(s, v, t, 0) + sep_at(s, v, t, 1) * sep_at(s, v, t, 1) + "
                          "sep_at(s, v, t, 2) * sep_at(s, v, t, 2)")
spec("dot3v(a, b)", "a[0] * b[0] + a[1] * b[1] + a[2] * b[2]")
spec("hs_disc(p, v, s)", "dot3v(v, s) * dot3v(v, s) - n2(v) * (n2(s) - p._diameter_squared)")
spec("hs_hits(p, v, s)", "hs_disc(p, v, s) >= 0 and dot3v(v, s) >= 0")
contract(P + "hard_sphere_potential:HardSpherePotential.displacement", "C02", model="R",
         params={"velocity": "list[float]", "separation": "list[float]"}, leading_asserts="requires",
         requires=["len(velocity) == 3", "len(separation) == 3", "self._diameter_squared > 0",
                   "n2(velocity) > 0", "n2(separation) >= self._diameter_squared"],
         ensures=[
             # contact happens at some t >= 0 iff the spheres approach (v.s >= 0) and the discriminant is non-negative;
             # then the result is a contact time: the distance equals the diameter there, and it is not negative ...
             "implies(hs_hits(self, velocity, separation), result >= 0)",
             "implies(hs_hits(self, velocity, separation), dist2_at(separation, velocity, result) == self._diameter_squared)",
             # ... and the FIRST one: the spheres do not overlap at any earlier time
             "implies(hs_hits(self, velocity, separation), forall(lambda t: implies(0 <= t and t <= result, "
             "dist2_at(separation, velocity, t) >= self._diameter_squared)))",
             # otherwise the result is infinite, and indeed the spheres never touch at a later time
             # (lemma hs-never-touches: under "not hs_hits" the spheres indeed never touch at any later time)
             "implies(not hs_hits(self, velocity, separation), isinf(result) and result > 0)"],
         canary="result == 0",
         note="general velocity; the two leading asserts of the code are its admissibility precondition")

# --------------------------------------------------------------------------------------------- inverse power
IP = P + "inverse_power_potential:InversePowerPotential."
IPGEN = contracts.potentials_c03.IPGEN
spec("ip_energy(p, c, s)", "c * p._prefactor / pow(n2(s), p._power_over_two)")
spec("ip_energy_at(p, c, s, d, x)", "c * p._prefactor / pow((s[d] - x) * (s[d] - x) + rest2(s, d), p._power_over_two)")
contract(IP + "potential", "C02", model="R", params={"separation": "list[float]"}, axioms=["pow-positive"],
         requires=["len(separation) == 3", "n2(separation) > 0", "ip_ok(self)"],
         ensures=["result == ip_energy(self, charge_product, separation)"], canary="result == 0")
contract(IP + "_displacement_repulsive", "C02", model="R", params={"separation": "list[float]"}, axioms=POW,
         requires=["len(separation) == 3", "0 <= direction < 3", "rest2(separation, direction) > 0", "ip_ok(self)",
                   "charge_product * self._prefactor > 0", "potential_change > 0", "self._infinity == inf"],
         may_raise={"ValueError": ["native: False"]}, native_gen=IPGEN.replace("'direction': rng.randrange(3), 'dirn': rng.randrange(3)}", "'direction': rng.randrange(3), 'charge_product': rng.choice([1.0, 2.0, 0.5, -1.0, -3.0]), 'potential_change': rng.choice([0.01, 0.3, 1.0, 5.0, 100.0])}"),
         ensures=[
             # in front of the target, or the energy hill (its top is at s_d = 0) is lower than the budget: never stopped
             "implies(separation[direction] <= 0 or potential_change >= ip_energy_at(self, charge_product, separation, direction, "
             "separation[direction]) - ip_energy(self, charge_product, separation), isinf(result) and result > 0)",
             # otherwise: uphill all the way, stopped where the energy has risen by exactly the budget, before the top
             # (NOT decided by the solvers: nonlinear arithmetic over the uninterpreted power function; evaluated natively)
             "native: implies(separation[direction] > 0 and potential_change < ip_energy_at(self, charge_product, separation, direction, "
             "separation[direction]) - ip_energy(self, charge_product, separation), "
             "0 <= result and result <= separation[direction] and "
             "ip_energy_at(self, charge_product, separation, direction, result) - ip_energy(self, charge_product, separation) "
             "== potential_change)"],
         canary="result == 0")
contract(IP + "_displacement_attractive", "C02", model="R", params={"separation": "list[float]"}, axioms=POW,
         requires=["len(separation) == 3", "0 <= direction < 3", "rest2(separation, direction) > 0", "ip_ok(self)",
                   "charge_product * self._prefactor < 0", "potential_change > 0", "self._infinity == inf"],
         may_raise={"ValueError": ["native: False"]}, native_gen=IPGEN.replace("'direction': rng.randrange(3), 'dirn': rng.randrange(3)}", "'direction': rng.randrange(3), 'charge_product': rng.choice([1.0, 2.0, 0.5, -1.0, -3.0]), 'potential_change': rng.choice([0.01, 0.3, 1.0, 5.0, 100.0])}"),
         modifies=["contents(separation)"],
         ensures=[
             # free run to the plane of closest approach (downhill), then uphill away from the target; the budget suffices
             # to escape iff the energy at the plane plus the budget reaches the dissociation limit 0
             "implies(old(ip_energy_at(self, charge_product, separation, direction, separation[direction])) + potential_change >= 0, "
             "isinf(result) and result > 0)",
             "native: implies(old(ip_energy_at(self, charge_product, separation, direction, separation[direction])) + potential_change < 0, "
             "result >= max(old(separation[direction]), 0) and "
             "old(ip_energy_at(self, charge_product, separation, direction, result)) - "
             "old(ip_energy_at(self, charge_product, separation, direction, max(separation[direction], 0))) == potential_change)"],
         canary="result == 0")

# ------------------------------------------------------------------------------------- cell bounding potential
cls("CellBoundingPotential", _bounding_event_rate="float", _derivative_bounds="any", _estimator="any")

# ------------------------------------------------------------------- Mexican-hat potentials (LJ, displaced even power)
# The ten paths through standard_velocity_displacement and its four helpers (front/behind x inside/outside x can/cannot
# climb x reaches/misses the sphere) are NOT brought within the solvers' reach (multi-segment identities over the
# uninterpreted power function); the inversion identity is stated natively against the cumulative uphill energy built
# from the geometric breakpoints and checked by the native search on the real code (BOUNDED stand-in).
MHGEN = ("def gen(rng):\n"
         "    from jellyfysh.potential.lennard_jones_potential import LennardJonesPotential\n"
         "    from jellyfysh.potential.displaced_even_power_potential import DisplacedEvenPowerPotential\n"
         "    pot = %s\n"
         "    s = [rng.choice([0.3, -0.7, 1.1, 0.05, -0.2, 0.6, -1.4, 0.9]) for _ in range(3)]\n"
         "    return {'self': pot, 'separation': s, 'direction': rng.randrange(3), 'potential_change': rng.choice([1e-3, 0.05, 0.4, 2.0, 30.0])}\n")
for cname, mod, ctor in (("LennardJonesPotential", "lennard_jones_potential",
                          "LennardJonesPotential(prefactor=rng.choice([1.0, 2.5]), characteristic_length=rng.choice([0.5, 1.0]))"),
                         ("DisplacedEvenPowerPotential", "displaced_even_power_potential",
                          "DisplacedEvenPowerPotential(equilibrium_separation=rng.choice([0.5, 1.0]), power=rng.choice([2, 4]), prefactor=rng.choice([1.0, 10.0]))")):
    contract(P + "%s:%s.standard_velocity_displacement" % (mod, cname), "C02", model="R", tag="native",
             params={"separation": "list[float]"}, assume_only=False, native_gen=MHGEN % ctor,
             requires=["len(separation) == 3", "0 <= direction < 3", "potential_change > 0", "n2(separation) > 0.0001",
                       "rest2(separation, direction) > 0.0001",
                       # the identity is claimed in the well-conditioned range only: the budget is not lost in the
                       # rounding of the potential values themselves
                       "abs(pot_energy(self, separation)) <= 10000 * potential_change"],
             modifies=["contents(separation)"],
             may_raise={"ValueError": ["native: False"], "ZeroDivisionError": ["native: False"]},
             ensures=["native: result >= 0",
                      "native: implies(not isinf(result), close(uphill_energy(self, old(separation), direction, result), potential_change))"],
             ghost={"bounded_only": True},
             note="bounded stand-in: the identity E+(result) == budget is evaluated natively on generated inputs only")


# |s - v t|^2 - d^2 = a t^2 - 2 b t + c with a = v.v > 0, b = v.s, c = s.s - d^2 >= 0: without a non-negative discriminant
# and an approaching pair (b >= 0) there is no contact at any t > 0 - so returning infinity is right
lemma("hs-never-touches", "C02", model="R", variables={"a": "float", "b": "float", "c": "float", "t": "float"},
      assumes=["a > 0", "c >= 0", "not (b * b - a * c >= 0 and b >= 0)", "t > 0"], goal="a * t * t - 2 * b * t + c > 0")
lemma("hs-distance-is-quadratic", "C02", model="R",
      variables={"s0": "float", "s1": "float", "s2": "float", "v0": "float", "v1": "float", "v2": "float", "t": "float", "d2": "float"},
      goal="(s0 - v0 * t) * (s0 - v0 * t) + (s1 - v1 * t) * (s1 - v1 * t) + (s2 - v2 * t) * (s2 - v2 * t) - d2 == "
           "(v0 * v0 + v1 * v1 + v2 * v2) * t * t - 2 * (v0 * s0 + v1 * s1 + v2 * s2) * t + (s0 * s0 + s1 * s1 + s2 * s2 - d2)")


# ---- the periodic 1/r bounding potential in C: displacement() - floor / fmod / sqrt on doubles and a five-way case split
# over an implicit equation; BOUNDED native check of the inversion identity against an independent summation of the
# uphill energy over the periodic images (never counted as proved)
CBD = "jellyfysh/potential/inverse_power_coulomb_bounding_potential/inverse_power_coulomb_bounding_potential.c:"
CBD_GEN = ("def gen(rng):\n"
           "    L = rng.choice([1.0, 2.0, 0.8, 3.7, 10.0])\n"
           "    pp = rng.choice([1.0, -1.0, 1.5837, -0.37, 4.2])\n"
           "    sx = rng.uniform(-L / 2, L / 2) if rng.random() < 0.9 else rng.choice([-L / 2, 0.0, L / 2])\n"
           "    sy, sz = rng.uniform(-L / 2, L / 2), rng.uniform(-L / 2, L / 2)\n"
           "    import math\n"
           "    rho2 = sy * sy + sz * sz\n"
           "    per_length = abs(pp) * abs(1 / math.sqrt(rho2) - 1 / math.sqrt(L * L / 4 + rho2)) if rho2 > 0 else 1.0\n"
           "    budget = per_length * rng.choice([rng.uniform(0.0, 1.0), rng.uniform(1.0, 4.5), 10 ** rng.uniform(-6, 0)])\n"
           "    return {'prefactor_product': pp, 'sx': sx, 'sy': sy, 'sz': sz, 'potential_change': budget, 'system_length': L}\n")
contract(CBD + "displacement", "C02", model="R", tag="native", native_gen=CBD_GEN,
         requires=["sy * sy + sz * sz > 1e-4 * system_length * system_length", "potential_change > 0"],
         ensures=["native: result >= -1e-9 * system_length",
                  "native: close(cb_uphill(prefactor_product, sx, sy, sz, result, system_length), potential_change)"],
         ghost={"bounded_only": True},
         note="bounded stand-in: the returned displacement inverts the cumulative uphill energy, including whole box "
              "traversals, for five box lengths, both signs of the charge product and budgets up to 4.5 traversals")
