"""C14 - contracts on jellyfysh.base.time.Time (sidecar; /repo is not edited)."""
from pyvc.api import cls, spec, contract

M = "jellyfysh.base.time"
cls("Time", _quotient="float", _remainder="float")

# abstract value and normal form (model R: exact rational order of quotient + remainder)
spec("val(t)", "t._quotient + t._remainder")
spec("norm(t)", "(is_int(t._quotient) and 0 <= t._quotient <= 2**52 and 0 <= t._remainder < 1) "
                "or (isinf(t._quotient) and isinf(t._remainder) and t._quotient > 0 and t._remainder > 0)")
spec("fin(t)", "is_int(t._quotient) and 0 <= t._quotient <= 2**52 and 0 <= t._remainder < 1")
spec("lex_lt(a, b)", "a._quotient < b._quotient or (a._quotient == b._quotient and a._remainder < b._remainder)")

for name, rel in (("__lt__", "<"), ("__le__", "<="), ("__gt__", ">"), ("__ge__", ">="), ("__eq__", "=="), ):
    contract(M + ":Time." + name, "C14", model="R", params={"other": "Time"}, returns="bool",
             requires=["fin(self)", "fin(other)"],
             ensures=["result == (val(self) %s val(other))" % rel],
             canary="result == (val(self) %s val(other) + 1)" % rel, native_tol=0,
             note="comparison agrees with the exact rational order of quotient+remainder (finite normalised times)")

# ---- arithmetic in the reals: the structure of the computation (which pieces are added where)
contract(M + ":Time.__add__", "C14", model="R", params={"other": "float"}, returns="Time", fresh_result=True,
         requires=["fin(self)", "other >= 0"],
         ensures=["implies(not isinf(other), is_int(result._quotient) and 0 <= result._remainder < 1)",
                  "implies(not isinf(other), val(result) == val(self) + other)",
                  "implies(not isinf(other), result._quotient >= self._quotient)",
                  "implies(isinf(other), isinf(result._quotient) and isinf(result._remainder))",
                  "fresh(result)"],
         canary="result._remainder < 0.5",
         note="model R: exact value, normal form, absorbing infinity; the rounding clause is proved in model F below")

contract(M + ":Time.from_float", "C14", model="R", params={"time": "float"}, returns="Time", fresh_result=True,
         ensures=["implies(not isinf(time), is_int(result._quotient) and 0 <= result._remainder < 1 and val(result) == time)",
                  "implies(not isinf(time) and time >= 0, fin0(result))",
                  "implies(isinf(time), isinf(result._quotient) and isinf(result._remainder))"],
         canary="result._remainder == 0",
         note="any sign (the sampling handler converts -interval): quotient = floor, remainder in [0, 1)")
spec("fin0(t)", "is_int(t._quotient) and 0 <= t._quotient and 0 <= t._remainder < 1")

contract(M + ":Time.__sub__", "C14", model="R", params={"other": "Time"}, returns="float",
         requires=["fin(self)", "fin(other)"],
         ensures=["result == val(self) - val(other)"],
         canary="result >= 0")

contract(M + ":Time.update", "C14", model="R", params={"other": "Time"},
         requires=[], modifies=["self._quotient", "self._remainder"],
         ensures=["self._quotient == old(other._quotient)", "self._remainder == old(other._remainder)"],
         canary="self._quotient == 0")

# ---- bit-precise clauses (model F, IEEE binary64): normal form, one rounding independent of the quotient
FIN_F = "is_int(self._quotient) and 0 <= self._quotient <= 2**52 and 0 <= self._remainder < 1"
contract(M + ":Time.__add__", "C14", tag="F", model="F", params={"other": "float"}, returns="Time",
         requires=[FIN_F, "0 <= other <= 2**40"], lemmas_used=["divmod1"],
         ensures=["is_int(result._quotient)",
                  "0 <= result._remainder < 1",
                  # s = RN(remainder + other) is the ONLY rounding: the split of s and the quotient update are exact
                  "exact_sub(rn_add(self._remainder, other), floor(rn_add(self._remainder, other)))",
                  "result._remainder == rn_sub(rn_add(self._remainder, other), floor(rn_add(self._remainder, other)))",
                  "exact_add(self._quotient, floor(rn_add(self._remainder, other)))",
                  "result._quotient == rn_add(self._quotient, floor(rn_add(self._remainder, other)))",
                  "not lex_lt(result, self)"],
         canary="result._remainder < 0.5",
         trusted=["cpython_float_divmod: float_divmod(x, 1.0) encoded from Objects/floatobject.c with fmod(x,1.0) = x - trunc(x) (exact)"],
         note="val(result) = quotient + RN(remainder + other) exactly: one rounding, whatever the quotient")
contract(M + ":Time.__add__", "C14", tag="Finf", model="F", params={"other": "float"}, returns="Time",
         requires=[FIN_F, "isinf(other) and other > 0"],
         ensures=["isinf(result._quotient) and result._quotient > 0", "isinf(result._remainder) and result._remainder > 0"],
         canary="result._quotient < 0", note="infinity is absorbing")
contract(M + ":Time.from_float", "C14", tag="F", model="F", params={"time": "float"}, returns="Time",
         requires=["0 <= time <= 2**53"], lemmas_used=["divmod1"],
         ensures=["is_int(result._quotient)", "0 <= result._remainder < 1",
                  "exact_add(result._quotient, result._remainder)",
                  "add_rtn(result._quotient, result._remainder) == time"],
         canary="result._remainder == 0",
         trusted=["cpython_float_divmod: float_divmod(x, 1.0) encoded from Objects/floatobject.c with fmod(x,1.0) = x - trunc(x) (exact)"],
         note="conversion from a non-negative float is exact")

# ---- comparisons including +infinity, bit precise (model F): they agree with the lexicographic (quotient, remainder)
# order, which for normalised times is the exact order of quotient + remainder; infinity is the largest and equals itself
spec("ok_f(t)", "(is_int(t._quotient) and 0 <= t._quotient <= 2**52 and 0 <= t._remainder < 1) or "
                "(isinf(t._quotient) and t._quotient > 0 and isinf(t._remainder) and t._remainder > 0)")
spec("lex_eq(a, b)", "a._quotient == b._quotient and a._remainder == b._remainder")
for name, rhs in (("__lt__", "lex_lt(self, other)"), ("__le__", "lex_lt(self, other) or lex_eq(self, other)"),
                  ("__gt__", "lex_lt(other, self)"), ("__ge__", "lex_lt(other, self) or lex_eq(self, other)"),
                  ("__eq__", "lex_eq(self, other)")):
    contract(M + ":Time." + name, "C14", tag="Finf", model="F", params={"other": "Time"}, returns="bool",
             inline=["__lt__", "__eq__", "__sub__", "__gt__", "__le__", "__ge__", "__ne__"],
             requires=["ok_f(self)", "ok_f(other)"],
             ensures=["result == (%s)" % rhs],
             canary="result", note="includes infinite operands: inf == inf, inf >= inf, finite < inf")
