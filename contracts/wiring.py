"""C08 / C09 - the wiring lemma: for every shipped .ini the create/trash/activate/deactivate lists make
"pending events == what a fresh start would create" an INDUCTIVE invariant of the mediator loop.

Inputs, all read from the current tree:
  * the lists of every tagger section of every config file (configparser, exactly as run.py reads them);
  * FRAMES derived from the sources by an AST scan: which event-handler classes change the motion of units in
    send_out_state (a store to ``.velocity`` / a call of a velocity-changing helper, transitively through self.* calls
    and base classes), which only displace the active unit into the next cell, which are trajectory preserving
    (time slicing only); and what each tagger class reads in yield_identifiers_send_event_time (the active state,
    its cell occupancy).
One obligation per (config, reachable activation vector, committed tagger T, tagger X):  W /\\ step_T  =>  W'(X),
a ground formula over an enumerated status sort, discharged by z3."""
import ast
import configparser
import glob
import os
import re
import time

import z3

from pyvc import loader
from pyvc.core import Ctx, MODELS, VerifError
from pyvc.interp import Explorer
from pyvc.runner import UnitResult, classify
from pyvc.discharge import discharge

VELOCITY_HELPERS = {"_exchange_velocity", "_pass_composite_object_velocity", "_register_velocity_change_leaf_cnode",
                    "_commit_non_leaf_velocity_changes", "_get_new_velocity"}
TIME_SLICE = re.compile(r"^_time_slice")


def camel(s):
    return "".join(p.capitalize() for p in s.split("_"))


def class_info(name):
    info = Explorer(None).class_index(name)
    if info is None:
        raise loader.AnchorError("class %s (named in a config file) not found under jellyfysh/" % name)
    return info


def method_closure(info, start):
    """FunctionDefs reachable from method ``start`` through self.<m>() / super().<m>() calls, over the MRO."""
    seen, todo, out = set(), [start], []
    while todo:
        m = todo.pop()
        if m in seen:
            continue
        seen.add(m)
        owner, fn = info.find_method(m)
        if fn is None:
            continue
        out.append(fn)
        for node in ast.walk(fn):
            if isinstance(node, ast.Call) and isinstance(node.func, ast.Attribute):
                v = node.func.value
                if isinstance(v, ast.Name) and v.id == "self":
                    todo.append(node.func.attr)
                elif isinstance(v, ast.Call) and isinstance(v.func, ast.Name) and v.func.id == "super":
                    # super().m(): the next definition up the MRO
                    for c in info.mro():
                        if node.func.attr in c.methods and c.methods[node.func.attr] is not fn:
                            out.append(c.methods[node.func.attr])
    return out


def handler_frame(cls_name):
    """'motion' | 'position' | 'none': what send_out_state may change beyond trajectory-preserving time slicing."""
    info = class_info(cls_name)
    kind = "none"
    starts = ["send_out_state"] + [m for c in info.mro() for m in c.methods if m.startswith("_send_out_state")]
    fns = []
    for st in starts:      # a handler may rebind send_out_state to one of its _send_out_state_* methods
        fns.extend(method_closure(info, st))
    for fn in fns:
        if TIME_SLICE.match(fn.name):
            continue
        for node in ast.walk(fn):
            tgt = None
            if isinstance(node, (ast.Assign, ast.AugAssign)):
                targets = node.targets if isinstance(node, ast.Assign) else [node.target]
                for t in targets:
                    base = t.value if isinstance(t, ast.Subscript) else t
                    if isinstance(base, ast.Attribute):
                        tgt = base.attr
                        if tgt == "velocity":
                            return "motion"
                        if tgt == "position" and kind == "none":
                            kind = "position"
            if isinstance(node, ast.Call) and isinstance(node.func, ast.Attribute) and node.func.attr in VELOCITY_HELPERS:
                return "motion"
    return kind


COUNT_ONLY_BASES = ("EndOfChainEventHandler", "SamplingEventHandler", "EndOfRunEventHandler", "DumpingEventHandler",
                    "StartOfRunEventHandler")


def count_only(handler_cls):
    """Taggers whose pending events are compared by NUMBER only (the property: sampling, end of chain, end of run,
    dumping, mode switch): their handlers work on the active state handed over at send_out_state time."""
    info = class_info(handler_cls)
    return any(info.is_subclass_of(b) for b in COUNT_ONLY_BASES) or "Switcher" in handler_cls


def tagger_reads(cls_name):
    info = class_info(cls_name)
    owner, fn = info.find_method("yield_identifiers_send_event_time")
    reads = set()
    if fn is None:
        return reads
    params = [a.arg for a in fn.args.args[1:]]
    for node in ast.walk(fn):
        if isinstance(node, ast.Name) and node.id in params:
            reads.add("active")
        if isinstance(node, ast.Attribute) and isinstance(node.value, ast.Name) and node.value.id == "self" and \
                ("cell" in node.attr or "internal_state" in node.attr):
            reads.add("cell")
    return reads


def load_ini(path):
    c = configparser.ConfigParser()
    c.read(path)
    taggers = [t.strip() for t in c["TagActivator"]["taggers"].replace("\n", " ").split(",") if t.strip()]
    info = {}
    for t in taggers:
        m = re.match(r"(\w+)\s*(?:\((\w+)\))?", t)
        tag, cls = m.group(1), m.group(2) or m.group(1)
        sec = c[camel(tag)]

        def lst(k):
            return [x.strip() for x in sec.get(k, "").replace("\n", " ").split(",") if x.strip()]
        eh = sec.get("event_handler", "")
        e = re.search(r"\((\w+)\)", eh)
        ehc = e.group(1) if e else eh.strip()
        info[tag] = dict(cls=camel(cls), create=lst("create"), trash=lst("trash"), act=lst("activate"),
                         deact=lst("deactivate"), ehc=camel(ehc), label=sec.get("internal_state_label", ""))
    return info


STATUS, (EMPTY, FRESH, STALE, DUP) = z3.EnumSort("PendingStatus", ["empty", "fresh", "stale", "dup"])


def wiring_units(prop, tier, seed, timeout_ms, only=None, **_):
    if only and "wiring" not in only:
        return []
    base = os.path.join(loader.REPO, "jellyfysh", "config_files")
    files = sorted(glob.glob(os.path.join(base, "**", "*.ini"), recursive=True))
    units = []
    frames_cache, reads_cache = {}, {}
    for f in files:
        rel = os.path.relpath(f, base)
        u = UnitResult("wiring:%s" % rel, kind="lemma")
        u.model_name = "R"
        u.props = [prop]
        t0 = time.time()
        try:
            info = load_ini(f)
            tags = list(info)
            for d in info.values():
                if d["ehc"] not in frames_cache:
                    frames_cache[d["ehc"]] = handler_frame(d["ehc"])
                if d["cls"] not in reads_cache:
                    reads_cache[d["cls"]] = tagger_reads(d["cls"])
            labels = {d["label"] for d in info.values()}

            def reads(d):
                r = set()
                if count_only(d["ehc"]):
                    return r
                for x in reads_cache[d["cls"]]:
                    r.add("active" if x == "active" else "cell:" + d["label"])
                return r

            def affects(d):
                k = frames_cache[d["ehc"]]
                if k == "motion":
                    return {"active"} | {"cell:" + l for l in labels}
                if k == "position":
                    return {"cell:" + d["label"]}
                return set()
            start = [t for t in tags if "StartOfRun" in info[t]["ehc"]]
            ends = [t for t in tags if "EndOfRun" in info[t]["ehc"]]
            if len(start) != 1:
                raise VerifError("config has %d start-of-run taggers" % len(start))
            start = start[0]

            def step_act(a, T):
                a = dict(a)
                for x in info[T]["act"]:
                    a[x] = True
                for x in info[T]["deact"]:
                    a[x] = False
                return a
            # reachable activation vectors (least fixpoint over the activate/deactivate lists alone)
            a0 = step_act({t: True for t in tags}, start)
            seen = {tuple(sorted(a0.items()))}
            work = [a0]
            while work:
                a = work.pop()
                for T in tags:
                    if T == start or T in ends or not a[T]:
                        continue
                    a2 = step_act(a, T)
                    k = tuple(sorted(a2.items()))
                    if k not in seen:
                        seen.add(k)
                        work.append(a2)
            ex = Explorer(None)
            ctx = Ctx(MODELS["R"], [], 0, ex)
            for vec in sorted(seen):
                a = dict(vec)
                pre = {X: z3.Const("st_%s" % X, STATUS) for X in tags}
                hyp = [pre[X] == (FRESH if (a[X] and X != start) else EMPTY) for X in tags]
                for T in tags:
                    if T == start or T in ends or not a[T]:
                        continue
                    a2 = step_act(a, T)
                    for X in tags:
                        st = pre[X]
                        if X in info[T]["trash"]:
                            st = EMPTY
                        elif affects(info[T]) & reads(info[X]):
                            st = z3.If(st == FRESH, STALE, st)
                        if X in info[T]["create"] and a2[X]:
                            st = z3.If(st == EMPTY, FRESH, DUP)
                        want = FRESH if (a2[X] and X != start) else EMPTY
                        ctx.pc = list(hyp)
                        ctx.oblige("wiring/%s/event-of-%s/%s-is-%s" % (rel, T, X, "fresh" if want is FRESH else "empty"),
                                   st == want, kind="lemma")
            # the start-of-run event establishes W
            pre0 = {X: (FRESH if X == start else EMPTY) for X in tags}
            a1 = a0
            for X in tags:
                st = pre0[X]
                if X in info[start]["trash"]:
                    st = EMPTY
                if X in info[start]["create"] and a1[X]:
                    st = FRESH if st is EMPTY else DUP
                want = FRESH if (a1[X] and X != start) else EMPTY
                ctx.pc = []
                ctx.oblige("wiring/%s/start-of-run-establishes/%s" % (rel, X), z3.BoolVal(st is want), kind="lemma")
            u.obligations = ctx.obligations
            u.paths = len(seen)
            u.notes = ["handler frames: " + ", ".join("%s=%s" % kv for kv in sorted(frames_cache.items())),
                       "tagger reads: " + ", ".join("%s=%s" % (k, sorted(v)) for k, v in sorted(reads_cache.items()))]
        except loader.AnchorError as e:
            u.status, u.detail = "anchor", str(e)
        except (VerifError, KeyError) as e:
            u.status, u.detail = "out_of_reach", "%s: %s" % (type(e).__name__, e)
        u.seconds = time.time() - t0
        units.append(u)
    obs = [o for u in units if u.status is None for o in u.obligations]
    discharge(obs, timeout_ms=10000)
    for u in units:
        if u.status is None:
            classify(u)
    return units
