"""Calls: contracts at call sites, inlining, constructors, modelled builtins, spec forms, dict model."""
import ast

import z3

from . import loader
from .core import (REG, RefV, ArrV, StructV, Ty, VerifError, PathEnd, T_INT, T_FLOAT, T_BOOL, T_ANY, parse_type, sort_of, sort_key,
                   type_of_value)
from .values import (FuncV, BuiltinV, ClassV, ModuleV, SuperV, LambdaV, ExcV, RangeV, EnumV, ZipV, GenV, Frame, KwargsV,
                     ReturnSig, RaiseSig)
from .interp_expr import is_z3, is_intlike, EXC_NAMES

NOOP_MODULES = ("jellyfysh.base.logging",)
MAX_INLINE_DEPTH = 14


class CallMixin(object):
    SPEC_FORMS = {"forall", "exists", "old", "let"}
    SPEC_FUNCS = {"isinf", "isnan", "is_int", "abs", "min", "max", "len", "finite", "implies", "iff", "ite", "fresh",
                  "floor", "trunc", "has", "get", "real", "allocated_before", "same", "sqrt", "arr", "add_rtp", "add_rtn",
                  "sub_rtp", "sub_rtn", "exact_add", "exact_sub", "rn_add", "rn_sub", "pow", "glob", "obj", "next_up", "next_down"}

    # ------------------------------------------------------------------ dispatch
    def call_value(self, f, args, kwargs, spec, node=None):
        if isinstance(f, BuiltinV):
            return self.call_builtin(f, args, kwargs, spec)
        if isinstance(f, ClassV):
            return self.instantiate(f.info, args, kwargs, spec)
        if isinstance(f, LambdaV):
            return self.call_lambda(f, args, spec)
        if isinstance(f, FuncV):
            if f.module.name in NOOP_MODULES:
                return None
            if spec:
                return self.call_pure(f, args, kwargs)
            c = self.contract_for(f)
            cur = self.root_contract
            forced_inline = cur is not None and (f.node.name in cur.inline or f.qualname in cur.inline)
            if c is not None and not forced_inline and not (c is cur and len(self.frames) == 1):
                return self.apply_contract(c, f, args, kwargs)
            return self.exec_function(f, args, kwargs)
        if isinstance(f, ModuleV):
            raise VerifError("call of external %s" % f.name)
        raise VerifError("call of %r" % (f,))

    def contract_for(self, f):
        model = self.ctx.num.name
        for q in (f.dyn_qualname(), f.qualname):
            for key, c in REG.contracts.items():
                if c.qualname == q and c.model == model and not c.tag_is_lemma and not c.ghost.get("unit_only"):
                    return c
        return None

    def frame_qualname(self, fr):
        if fr.owner is not None:
            return "%s:%s.%s" % (fr.owner.module.name, fr.owner.name, fr.fn.name)
        return "%s:%s" % (fr.module.name, fr.fn.name)

    def bind_args(self, f, args, kwargs, lenient=False):
        fn = f.node
        a = fn.args
        names = [x.arg for x in a.posonlyargs + a.args]
        decos = f.owner.decorators.get(fn.name, []) if f.owner is not None else []
        vals = list(args)
        if f.owner is not None and "staticmethod" not in decos:
            if f.self_val is None:
                if not vals:
                    raise VerifError("unbound method call %s" % fn.name)
            else:
                vals = [f.self_val] + vals
        env = {}
        if len(vals) > len(names):
            if not a.vararg and not lenient:
                raise VerifError("too many arguments for %s" % fn.name)
            # (lenient: an interface contract on an abstract method whose concrete overrides take more arguments)
            env[a.vararg.arg if a.vararg else "extra_args"] = tuple(vals[len(names):])
            vals = vals[:len(names)]
        elif a.vararg:
            env[a.vararg.arg] = ()
        for n, v in zip(names, vals):
            env[n] = v
        defaults = a.defaults
        first_default = len(names) - len(defaults)
        for i, n in enumerate(names):
            if n in env:
                continue
            if n in kwargs:
                env[n] = kwargs[n]
            elif i >= first_default:
                self.frames.append(Frame(f.module, None, None, None, {}))
                try:
                    env[n] = self.ev(defaults[i - first_default], False)
                finally:
                    self.frames.pop()
            else:
                raise VerifError("missing argument %s for %s" % (n, fn.name))
        for ko, kd in zip(a.kwonlyargs, a.kw_defaults):
            if ko.arg in kwargs:
                env[ko.arg] = kwargs[ko.arg]
            elif kd is not None:
                env[ko.arg] = self.ev(kd, False)
        extra = {k: v for k, v in kwargs.items() if k not in names and k not in [x.arg for x in a.kwonlyargs]}
        if a.kwarg:
            env[a.kwarg.arg] = KwargsV(extra)
        elif extra:
            raise VerifError("unexpected keyword %s for %s" % (sorted(extra)[0], fn.name))
        return env

    def exec_function(self, f, args, kwargs):
        if len(self.frames) > MAX_INLINE_DEPTH:
            raise VerifError("inline depth exceeded at %s (recursion needs a contract)" % f.qualname)
        env = self.bind_args(f, args, kwargs)
        self_val = env.get("self") if f.owner is not None else None
        dyn = f.dyn_cls
        if dyn is None and f.owner is not None:
            dyn = f.owner
        fr = Frame(f.module, f.owner, dyn, self_val, env, contract=None, fn=f.node)
        self.ctx.inlined.add(f.qualname)
        self.frames.append(fr)
        try:
            self.run_body(f.node)
            return None
        except ReturnSig as r:
            return r.value
        finally:
            self.frames.pop()

    def run_body(self, fn):
        fr = self.frame
        body = loader.strip_docstring(fn.body)
        for s in body:
            if not isinstance(s, ast.Assert):
                fr.leading = False
            self.exec_stmt(s)

    def call_pure(self, f, args, kwargs):
        body = loader.strip_docstring(f.node.body)
        ok = body and isinstance(body[-1], ast.Return) and all(
            isinstance(st, ast.Assign) and len(st.targets) == 1 and isinstance(st.targets[0], ast.Name) for st in body[:-1])
        if not ok:
            raise VerifError("spec expression calls non-trivial function %s" % f.qualname)
        env = self.bind_args(f, args, kwargs)
        fr = Frame(f.module, f.owner, f.dyn_cls or f.owner, env.get("self"), env, fn=f.node)
        self.frames.append(fr)
        try:
            for st in body[:-1]:     # straight-line pure definitions
                fr.env[st.targets[0].id] = self.ev(st.value, True)
            return self.ev(body[-1].value, True)
        finally:
            self.frames.pop()

    def call_lambda(self, f, args, spec):
        names = [a.arg for a in f.node.args.args]
        env = dict(f.env)
        env.update(dict(zip(names, args)))
        fr = Frame(f.frame.module, f.frame.owner, f.frame.dyn_cls, f.frame.self_val, env, fn=f.frame.fn)
        self.frames.append(fr)
        try:
            return self.ev(f.node.body, spec)
        finally:
            self.frames.pop()

    def instantiate(self, info, args, kwargs, spec):
        if spec:
            raise VerifError("constructor call in spec expression")
        if info.name in EXC_NAMES or any(c.name.endswith("Error") or c.name == "Exception" for c in info.mro()) \
                or any(ast.unparse(b) in ("Exception", "RuntimeError", "Warning", "UserWarning") for b in info.node.bases):
            return ExcV(info.name, tuple(args))
        ref = self.ctx.alloc(Ty("ref", name=info.name))
        owner, fn = info.find_method("__init__")
        if fn is not None:
            self.call_value(FuncV(owner.module, owner, fn, ref, info), args, kwargs, False)
        return ref

    # ------------------------------------------------------------------ contracts at call sites
    def eval_clause(self, text, env_extra=None):
        node = ast.parse(text.strip(), mode="eval").body
        saved = self.spec_env
        if env_extra:
            self.spec_env = dict(saved)
            self.spec_env.update(env_extra)
        try:
            return self.as_bool_term(self.ev(node, True))
        finally:
            self.spec_env = saved

    def apply_contract(self, c, f, args, kwargs):
        ctx = self.ctx
        env = self.bind_args(f, args, kwargs, lenient=c.assume_only)
        # coerce ints passed for float parameters
        for n, ty in self.param_types(c, f).items():
            if n in env and ty.kind == "float":
                env[n] = ctx.to_float(env[n])
        fr = Frame(f.module, f.owner, f.dyn_cls or f.owner, env.get("self") if f.owner else None, env, fn=f.node)
        ctx.used_contracts.add(c.qualname)
        self.frames.append(fr)
        try:
            for i, r in enumerate(c.requires):
                self.oblige("call:%s/requires[%d]:%s" % (f.node.name, i, r[:60]), self.eval_clause(r), kind="call-pre")
            raise_conds = {}
            for exc, cond in c.raises.items():
                raise_conds[exc] = self.eval_clause(cond)
            old_heap = dict(ctx.heap)
            for exc, cond in raise_conds.items():
                if ctx.branch(cond):
                    raise RaiseSig(ExcV(exc))
            new_refs = self.havoc_modifies(c.modifies)
            old_wm = ctx.bump_wm_unknown() if c.allocates else ctx.wm_now()
            for nv in new_refs or []:
                # a reference written by the callee points to an object that exists when the callee returns
                ctx.assume_ref_typed(nv)
            rty = self.return_type(c, f)
            result = None
            if rty is not None and rty.kind != "none":
                result = self.fresh_result_value(rty)
                if isinstance(result, RefV):
                    if c.fresh_result:
                        ctx.assume(z3.And(result.term >= old_wm, result.term < ctx.wm_now()))
            self.old_heap_stack.append(old_heap)
            self.fresh_base_stack.append(old_wm)
            # the callee's random draws (ghost={"draws": [kinds]}) become draws of the caller, in call order
            extra = {"result": result}
            for k, kind in enumerate(c.ghost.get("draws", [])):
                t = ctx.fresh(kind, z3.IntSort() if kind in ("choice", "randint") else ctx.num.sort)
                ctx.draws.append((kind, t))
                extra["draw%d" % k] = t
            try:
                if result is not None and rty.kind in ("float", "int"):
                    # ``result == <expression>``: the expression itself is the result (no fresh name + equation), so
                    # that the caller's terms stay syntactically aligned with specification terms
                    for e in c.ensures:
                        node = ast.parse(e.strip(), mode="eval").body
                        if isinstance(node, ast.Compare) and len(node.ops) == 1 and isinstance(node.ops[0], ast.Eq) \
                                and isinstance(node.left, ast.Name) and node.left.id == "result" \
                                and not any(isinstance(x, ast.Name) and x.id == "result" for x in ast.walk(node.comparators[0])):
                            saved_env = self.spec_env
                            self.spec_env = dict(saved_env)
                            self.spec_env.update(extra)
                            try:
                                v = self.ev(node.comparators[0], True)
                            finally:
                                self.spec_env = saved_env
                            if is_z3(v) or isinstance(v, (int, float)):
                                defined = ctx.to_float(v) if rty.kind == "float" else self.Z(v)
                                if rty.kind == "float":
                                    ctx.assume(ctx.num.typing_assumption(defined))
                                result = defined
                                extra["result"] = result
                            break
                for e in c.ensures:
                    ctx.assume(self.eval_clause(e, extra))
            finally:
                self.old_heap_stack.pop()
                self.fresh_base_stack.pop()
            return result
        finally:
            self.frames.pop()

    def fresh_result_value(self, rty):
        ctx = self.ctx
        if rty.kind == "tuple":
            items = [self.fresh_result_value(a) for a in rty.args]
            return StructV(items, rty) if rty.name else tuple(items)
        v = ctx.fresh_of_type("ret", rty)
        if isinstance(v, RefV):
            ctx.assume_ref_typed(v)
        elif rty.kind == "float":
            ctx.assume(ctx.num.typing_assumption(v))
        return v

    def param_types(self, c, f):
        out = {}
        fn = f.node
        for a in fn.args.posonlyargs + fn.args.args + fn.args.kwonlyargs:
            if a.arg in c.params:
                out[a.arg] = c.params[a.arg]
            elif a.arg == "self" and f.owner is not None:
                out[a.arg] = Ty("ref", name=(f.dyn_cls or f.owner).name)
            elif a.annotation is not None:
                try:
                    out[a.arg] = parse_type(ast.unparse(a.annotation))
                except VerifError:
                    pass
        return out

    def return_type(self, c, f):
        if c.returns is not None:
            return c.returns
        if f.node.returns is not None:
            txt = ast.unparse(f.node.returns)
            if txt == "None":
                return None
            return parse_type(txt)
        return None

    # ------------------------------------------------------------------ spec forms
    def spec_forall(self, node):
        return self._quant(node, z3.ForAll)

    def spec_exists(self, node):
        return self._quant(node, z3.Exists)

    def _quant(self, node, Q):
        lam = node.args[-1]
        if not isinstance(lam, ast.Lambda):
            raise VerifError("forall/exists need a lambda")
        names = [a.arg for a in lam.args.args]
        vs = [z3.Int("%s!q%d" % (n, self.explorer.next_id())) for n in names]
        guard = []
        if len(node.args) == 3:
            lo, hi = self.Z(self.ev(node.args[0], True)), self.Z(self.ev(node.args[1], True))
            for v in vs:
                guard.append(z3.And(lo <= v, v < hi))
        saved = dict(self.frame.env)
        if len(node.args) == 3 and len(names) == 1 and z3.is_int_value(z3.simplify(lo)) and z3.is_int_value(z3.simplify(hi)) \
                and z3.simplify(hi).as_long() - z3.simplify(lo).as_long() <= 8:
            # a small constant range: the quantifier is a finite conjunction / disjunction
            parts = []
            try:
                for k in range(z3.simplify(lo).as_long(), z3.simplify(hi).as_long()):
                    self.frame.env[names[0]] = k
                    b = self.as_bool_term(self.ev(lam.body, True))
                    parts.append(z3.BoolVal(b) if isinstance(b, bool) else b)
            finally:
                self.frame.env.clear()
                self.frame.env.update(saved)
            return z3.And(*parts) if Q is z3.ForAll else z3.Or(*parts)
        self.frame.env.update(dict(zip(names, vs)))
        pats = []
        self.quant_depth = getattr(self, "quant_depth", 0) + 1
        try:
            body = self.as_bool_term(self.ev(lam.body, True))
            for kw in node.keywords:
                # trigger=lambda n: (t1, t2): instantiate only where ground terms match ALL of t1, t2 (stops matching loops)
                if kw.arg == "trigger":
                    ts = self.ev(kw.value.body, True)
                    ts = ts if isinstance(ts, tuple) else (ts,)
                    pats = [z3.MultiPattern(*[self.Z(t) for t in ts])] if len(ts) > 1 else [self.Z(ts[0])]
        finally:
            self.quant_depth -= 1
            self.frame.env.clear()
            self.frame.env.update(saved)
        if isinstance(body, bool):
            body = z3.BoolVal(body)
        if Q is z3.ForAll:
            return z3.ForAll(vs, z3.Implies(z3.And(*guard), body) if guard else body, patterns=pats)
        return z3.Exists(vs, z3.And(*(guard + [body])))

    def spec_old(self, node):
        if not self.old_heap_stack:
            raise VerifError("old() outside a postcondition")
        ctx = self.ctx
        saved = ctx.heap
        ctx.heap = dict(self.old_heap_stack[-1])
        saved_env = self.frame.env
        if self.frame.entry_env is not None:
            self.frame.env = dict(self.frame.entry_env)
            for k, v in saved_env.items():
                if k not in self.frame.env:
                    self.frame.env[k] = v
        try:
            return self.ev(node.args[0], True)
        finally:
            for k, v in ctx.heap.items():
                if k not in saved:
                    saved[k] = v
            ctx.heap = saved
            self.frame.env = saved_env

    def spec_let(self, node):
        # let(lambda x: body, value)
        lam = node.args[0]
        vs = [self.ev(a, True) for a in node.args[1:]]
        saved = dict(self.frame.env)
        for a, v in zip(lam.args.args, vs):
            self.frame.env[a.arg] = v
        try:
            return self.ev(lam.body, True)
        finally:
            self.frame.env.clear()
            self.frame.env.update(saved)

    def call_spec(self, name, args):
        ctx, num = self.ctx, self.ctx.num
        if name in REG.specs:
            params, body, _ = REG.specs[name]
            if len(params) != len(args):
                raise VerifError("spec %s arity" % name)
            fr = Frame(self.frame.module, self.frame.owner, self.frame.dyn_cls, self.frame.self_val,
                       dict(zip(params, args)), fn=self.frame.fn)
            fr.entry_env = None
            self.frames.append(fr)
            try:
                return self.ev(body, True)
            finally:
                self.frames.pop()
        if name in REG.ufuncs:
            return self.call_ufunc(name, args)
        if name == "isinf":
            return num.isinf(ctx.to_float(args[0]))
        if name == "isnan":
            return num.isnan(ctx.to_float(args[0]))
        if name == "finite":
            x = ctx.to_float(args[0])
            if num.name == "R":
                return True   # model R: floats are (finite) reals
            return z3.And(z3.Not(num.isinf(x)), z3.Not(num.isnan(x)))
        if name == "is_int":
            return num.is_int(ctx.to_float(args[0]))
        if name == "real":
            return ctx.to_float(args[0])
        if name == "abs":
            if is_intlike(args[0]):
                a = self.Z(args[0])
                return z3.If(a >= 0, a, -a)
            return num.abs(ctx.to_float(args[0]))
        if name in ("min", "max"):
            a, b = args
            lt = self.as_bool_term(self.compare("<" if name == "min" else ">", a, b, True))
            return self.ite(lt, a, b) if not isinstance(lt, bool) else (a if lt else b)
        if name == "len":
            v = args[0]
            if isinstance(v, tuple):
                return len(v)
            return ctx.list_len(v)
        if name == "implies":
            return z3.Implies(self.Z(self.as_bool_term(args[0])), self.Z(self.as_bool_term(args[1])))
        if name == "iff":
            return self.Z(self.as_bool_term(args[0])) == self.Z(self.as_bool_term(args[1]))
        if name == "ite":
            c = self.as_bool_term(args[0])
            return (args[1] if c else args[2]) if isinstance(c, bool) else self.ite(c, args[1], args[2])
        if name == "fresh":
            base = self.fresh_base_stack[-1] if self.fresh_base_stack else ctx.wm_entry
            return args[0].term >= base
        if name == "allocated_before":
            return z3.And(args[0].term > 0, args[0].term < ctx.wm_entry)
        if name == "same":
            return self.identical(args[0], args[1])
        if name == "floor":
            return num.floor(ctx.to_float(args[0]))
        if name == "trunc":
            return num.trunc_to_int(ctx.to_float(args[0]))
        if name == "has":
            return self.dict_has(args[0], args[1])
        if name == "get":
            return self.dict_get(args[0], args[1], True)
        if name == "sqrt":
            return self.sqrt_value(ctx.to_float(args[0]), True)
        if name in ("add_rtp", "add_rtn", "sub_rtp", "sub_rtn", "exact_add", "exact_sub", "rn_add", "rn_sub"):
            a, b = ctx.to_float(args[0]), ctx.to_float(args[1])
            if num.name == "R":
                if name.startswith("exact"):
                    return True
                return a - b if "sub" in name else a + b
            op = z3.fpSub if "sub" in name else z3.fpAdd
            if name.startswith("exact"):
                # the IEEE operation is exact iff rounding up and rounding down agree
                return z3.fpEQ(op(z3.RTP(), a, b), op(z3.RTN(), a, b))
            if name in ("rn_add", "rn_sub"):
                return op(z3.RNE(), a, b)
            return op(z3.RTP() if name.endswith("rtp") else z3.RTN(), a, b)
        if name == "pow":
            return self.float_pow(args[0], args[1], True)
        if name == "glob":
            # glob("pkg.module", "name"): a module global of another module (declared with module_global)
            return self.lookup_global(loader.load_module(args[0]), args[1])
        if name == "obj":
            # obj(n, "Class"): the integer n read as a reference to an object of the class (quantification over objects)
            from .core import parse_type
            return RefV(self.Z(args[0]), parse_type(args[1]))
        if name == "arr":
            v = args[0]
            return ArrV(ctx.list_arr(v, v.ty.base.args[0]), v.ty.base.args[0])
        raise VerifError("spec function %s" % name)

    def call_ufunc(self, name, args):
        arg_types, ret = REG.ufuncs[name]
        ctx = self.ctx
        sorts, terms = [], []
        for t, a in zip(arg_types, args):
            if t.startswith("arr["):
                ety = parse_type(t[4:-1])
                sorts.append(z3.ArraySort(z3.IntSort(), sort_of(ety, ctx.num)))
                terms.append(ctx.list_arr(a, ety) if isinstance(a, RefV) else (a.term if isinstance(a, ArrV) else a))
            else:
                ty = parse_type(t)
                sorts.append(sort_of(ty, ctx.num))
                terms.append(ctx.unwrap(a, ty))
        rty = parse_type(ret)
        fn = z3.Function("%s$%s" % (name, ctx.num.name), *(sorts + [sort_of(rty, ctx.num)]))
        return ctx.wrap(fn(*terms), rty)

    def call_ufunc_pow(self, a, b, spec):
        ctx = self.ctx
        fn = z3.Function("pow$%s" % ctx.num.name, ctx.num.sort, ctx.num.sort, ctx.num.sort)
        self.ctx.notes.append("pow(x, y) with non-constant exponent is uninterpreted (+ sidecar axioms)")
        return fn(a, b)

    def sqrt_value(self, x, spec):
        ctx, num = self.ctx, self.ctx.num
        if num.name == "F":
            return z3.fpSqrt(z3.RNE(), x)
        fn = z3.Function("sqrt$R", z3.RealSort(), z3.RealSort())
        r = fn(x)
        if not spec:
            ctx.assume(z3.Implies(x >= 0, z3.And(r >= 0, r * r == x)))
        return r

    # ------------------------------------------------------------------ dict model
    def _dict_sorts(self, d):
        kt, vt = d.ty.base.args if d.ty.base.kind == "dict" else (d.ty.base.args[0], T_BOOL)
        return kt, vt

    def _dict_keys(self, d):
        kt, vt = self._dict_sorts(d)
        ks, vs = sort_of(kt, self.ctx.num), sort_of(vt, self.ctx.num)
        tag = sort_key(ks) + "$" + sort_key(vs)
        return "dk$" + tag, "dv$" + tag, ks, vs, kt, vt

    def _dict_arrays(self, d):
        ctx = self.ctx
        kk, vk, ks, vs, kt, vt = self._dict_keys(d)
        dom = ctx.heap_get(kk, lambda: z3.ArraySort(z3.IntSort(), z3.ArraySort(ks, z3.BoolSort())))
        val = ctx.heap_get(vk, lambda: z3.ArraySort(z3.IntSort(), z3.ArraySort(ks, vs)))
        return kk, vk, dom, val, kt, vt

    def new_dict(self, kt, vt):
        ctx = self.ctx
        d = ctx.alloc(Ty("dict", [kt, vt]))
        kk, vk, dom, val, _, _ = self._dict_arrays(d)
        ks = sort_of(kt, ctx.num)
        ctx.heap[kk] = z3.Store(dom, d.term, z3.K(ks, z3.BoolVal(False)))
        return d

    def dict_has(self, d, k):
        kk, vk, dom, val, kt, vt = self._dict_arrays(d)
        return z3.Select(z3.Select(dom, d.term), self.ctx.unwrap(k, kt))

    def dict_get(self, d, k, spec):
        ctx = self.ctx
        kk, vk, dom, val, kt, vt = self._dict_arrays(d)
        K = ctx.unwrap(k, kt)
        if not spec:
            if not ctx.branch(z3.Select(z3.Select(dom, d.term), K)):
                raise RaiseSig(ExcV("KeyError"))
        v = ctx.wrap(z3.Select(z3.Select(val, d.term), K), vt)
        if not spec and isinstance(v, RefV):
            ctx.assume_ref_typed(v, vk)
        return v

    def dict_set(self, d, k, v):
        ctx = self.ctx
        kk, vk, dom, val, kt, vt = self._dict_arrays(d)
        if vt.kind == "any" and not isinstance(v, (RefV, int)) and not (is_z3(v) and v.sort() == z3.IntSort()):
            raise VerifError("dict value type must be declared (storing %r)" % (v,))
        K = ctx.unwrap(k, kt)
        ctx.heap[kk] = z3.Store(dom, d.term, z3.Store(z3.Select(dom, d.term), K, z3.BoolVal(True)))
        ctx.heap[vk] = z3.Store(val, d.term, z3.Store(z3.Select(val, d.term), K, ctx.unwrap(self.coerce(v, vt), vt)))

    def dict_del(self, d, k):
        ctx = self.ctx
        kk, vk, dom, val, kt, vt = self._dict_arrays(d)
        K = ctx.unwrap(k, kt)
        if not ctx.branch(z3.Select(z3.Select(dom, d.term), K)):
            raise RaiseSig(ExcV("KeyError"))
        ctx.heap[kk] = z3.Store(dom, d.term, z3.Store(z3.Select(dom, d.term), K, z3.BoolVal(False)))

    def dict_havoc(self, d):
        ctx = self.ctx
        kk, vk, dom, val, kt, vt = self._dict_arrays(d)
        ctx.heap[kk] = z3.Store(dom, d.term, ctx.fresh("hv$dom", dom.sort().range()))
        ctx.heap[vk] = z3.Store(val, d.term, ctx.fresh("hv$val", val.sort().range()))
