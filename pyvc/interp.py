"""The symbolic interpreter proper and the path explorer that turns one contract into obligations."""
import ast
import os
import re
import time

import z3

from . import loader
from .core import (REG, RefV, ArrV, Ty, VerifError, PathEnd, Infeasible, Ctx, MODELS, T_ANY, parse_type, sort_of)
from .values import Frame, FuncV, ReturnSig, RaiseSig, BreakSig, ContinueSig, ExcV
from .interp_expr import ExprMixin
from .interp_stmt import StmtMixin
from .interp_call import CallMixin
from .interp_builtin import BuiltinMixin


class Interp(ExprMixin, StmtMixin, CallMixin, BuiltinMixin):
    def __init__(self, ctx, explorer, root_contract):
        self.ctx = ctx
        self.explorer = explorer
        self.root_contract = root_contract
        self.frames = []
        self.spec_env = {}
        self.old_heap_stack = []
        self.fresh_base_stack = []
        self._class_cache = {}
        self.cur_exc = None
        self.cur_line = 0
        self.prefix = ""

    @property
    def frame(self):
        return self.frames[-1]

    def oblige(self, name, goal, kind="assert", expect_fail=False):
        info = {"line": self.cur_line}
        self.ctx.oblige(self.prefix + name, goal, kind, expect_fail, info)

    # ------------------------------------------------------------------------------------------
    def add_axioms(self, names):
        for (aname, variables, body, trusted) in REG.axioms:
            if aname not in names:
                continue
            vs, env = [], {}
            for vn, vt in variables.items():
                if vt.startswith("arr["):
                    ety = parse_type(vt[4:-1])
                    v = z3.Const("%s!ax" % vn, z3.ArraySort(z3.IntSort(), sort_of(ety, self.ctx.num)))
                    env[vn] = ArrV(v, ety)
                else:
                    ty = parse_type(vt)
                    v = z3.Const("%s!ax" % vn, sort_of(ty, self.ctx.num))
                    env[vn] = self.ctx.wrap(v, ty)
                vs.append(v)
            fr = Frame(self.frame.module, None, None, None, env)
            self.frames.append(fr)
            try:
                f = self.as_bool_term(self.ev(ast.parse(body, mode="eval").body, True))
            finally:
                self.frames.pop()
            self.ctx.assume(z3.ForAll(vs, f) if vs else f)

    def run_contract(self, c):
        ctx = self.ctx
        if ".c:" in c.qualname:
            from .cfront import CFront
            return CFront(self).run_contract(c)
        module, cls, fn = loader.find_function(c.qualname)
        owner = None
        if cls is not None:
            owner, _ = cls.find_method(fn.name)
        f = FuncV(module, owner, fn, None, cls)
        ptypes = self.param_types(c, f)
        decos = owner.decorators.get(fn.name, []) if owner is not None else []
        env = {}
        names = [a.arg for a in fn.args.posonlyargs + fn.args.args + fn.args.kwonlyargs]
        for n in names:
            if n not in ptypes:
                raise VerifError("parameter %s of %s has no type (annotation or contract params)" % (n, c.qualname))
            v = self.fresh_param(n, ptypes[n])
            env[n] = v
            ctx.inputs[n] = (v, ptypes[n])
        for gname, gty in (c.ghost.get("params") or {}).items():
            gv = self.fresh_param(gname, parse_type(gty))
            env[gname] = gv
            ctx.inputs[gname] = (gv, parse_type(gty))
        if fn.args.vararg is not None:
            items = []
            for vn, vt in (c.ghost.get("varargs") or []):
                v = self.fresh_param(vn, parse_type(vt))
                ctx.inputs[vn] = (v, parse_type(vt))
                items.append(v)
                env[vn] = v       # visible to the contract clauses under its own name
            env[fn.args.vararg.arg] = tuple(items)
        if fn.args.kwarg is not None:
            from .values import KwargsV
            env[fn.args.kwarg.arg] = KwargsV({})
        self_val = env.get("self") if owner is not None and "staticmethod" not in decos else None
        fr = Frame(module, owner, cls, self_val, env, contract=c, fn=fn)
        fr.is_contract_frame = True
        fr.entry_env = dict(env)
        self.frames.append(fr)
        self.prefix = fn.name + "/"
        self.add_axioms(c.axioms)
        for g in c.globals:
            self.lookup_global(module, g)
        for r in c.requires + c.assume:
            ctx.assume(self.eval_clause(r))
        raise_conds = {exc: self.eval_clause(cond) for exc, cond in c.raises.items()}
        entry_heap = dict(ctx.heap)
        self.old_heap_stack.append(entry_heap)
        outcome, result, exc = "return", None, None
        try:
            self.run_body(fn)
        except ReturnSig as r:
            result = r.value
        except RaiseSig as r:
            outcome, exc = "raise", r.exc
        except (BreakSig, ContinueSig):
            raise VerifError("break/continue outside loop")
        # restore the entry bindings of the parameters for the postcondition
        post_env = dict(fr.env)
        self.post_locals = post_env
        fr.env = dict(fr.entry_env)
        for k, v in post_env.items():
            if k not in fr.env:
                fr.env[k] = v
        if outcome == "raise":
            if exc.name in c.may_raise:
                for i, cl in enumerate(c.may_raise[exc.name]):
                    self.oblige("raised-%s/ensures[%d]:%s" % (exc.name, i, cl[:70]), self.eval_clause(cl), kind="ensures")
                # a PERMITTED exception (may_raise) need not be reachable: a contract that allows a raise the code can
                # never perform is not vacuous.  The reachability query is kept for information only (kind
                # "cover-optional"): its ``unsat`` is reported as a note, never as vacuity.  The preconditions are
                # guarded by cover:return and the canary.
                ctx.oblige(self.prefix + "cover:raise-%s" % exc.name, z3.BoolVal(False), "cover-optional", True)
            elif exc.name in raise_conds:
                self.oblige("raises:%s-only-when:%s" % (exc.name, c.raises[exc.name][:60]), raise_conds[exc.name],
                            kind="raises")
                ctx.oblige(self.prefix + "cover:raise-%s" % exc.name, z3.BoolVal(False), "cover", True)
            else:
                self.oblige("no-exception:%s(line %d)" % (exc.name, self.cur_line), z3.BoolVal(False), kind="no-raise")
            return
        for ename, cond in raise_conds.items():
            self.oblige("raises:%s-whenever:%s" % (ename, c.raises[ename][:60]), self.neg(cond), kind="raises")
        rty = self.return_type(c, f)
        if rty is not None and rty.kind == "float" and result is not None:
            result = ctx.to_float(result)
        self.add_axioms(c.ghost.get("late_axioms") or [])
        for i, e in enumerate(c.ensures):
            self.oblige("ensures[%d]:%s" % (i, e[:80]), self.eval_clause(e, {"result": result}), kind="ensures")
        self.frame_obligations(c, entry_heap)
        if c.canary:
            ctx.oblige(self.prefix + "canary:%s" % c.canary[:60], self.eval_clause(c.canary, {"result": result}),
                       "canary", True)
        ctx.oblige(self.prefix + "cover:return", z3.BoolVal(False), "cover", True)

    def fresh_param(self, name, ty):
        ctx = self.ctx
        if isinstance(ty, str) and ty.startswith("arr["):
            ety = parse_type(ty[4:-1])
            return ArrV(ctx.fresh("in$" + name, z3.ArraySort(z3.IntSort(), sort_of(ety, ctx.num))), ety)
        if ty.kind == "tuple":
            return tuple(self.fresh_param("%s.%d" % (name, i), a) for i, a in enumerate(ty.args))
        v = ctx.fresh_of_type("in$" + name, ty)
        if isinstance(v, RefV):
            ctx.assume_ref_typed(v)
        elif ty.kind == "float":
            ctx.assume(ctx.num.typing_assumption(v))
        return v

    def frame_obligations(self, c, entry_heap):
        ctx = self.ctx
        allowed = {}   # heap key -> list of ref terms, or None for "whole map"
        saved = ctx.heap
        ctx.heap = dict(entry_heap)
        try:
            for it in c.modifies:
                node = ast.parse(it, mode="eval").body
                if isinstance(node, ast.Call) and isinstance(node.func, ast.Name) and node.func.id == "allcontents":
                    allowed[ctx._el_key(parse_type(node.args[0].id))] = None
                elif isinstance(node, ast.Call) and isinstance(node.func, ast.Name) and node.func.id in ("elems", "contents"):
                    lst = self.ev(node.args[0], True)
                    ety = lst.ty.base.args[0]
                    if allowed.get(ctx._el_key(ety), []) is None:
                        continue
                    allowed.setdefault(ctx._el_key(ety), []).append(lst.term)
                    if node.func.id == "elems":
                        allowed.setdefault("len", []).append(lst.term)
                elif isinstance(node, ast.Call) and isinstance(node.func, ast.Name) and node.func.id == "dictof":
                    d = self.ev(node.args[0], True)
                    kk, vk = self._dict_keys(d)[:2]
                    allowed.setdefault(kk, []).append(d.term)
                    allowed.setdefault(vk, []).append(d.term)
                elif isinstance(node, ast.Attribute):
                    key = ctx.field_key(node.attr)
                    if isinstance(node.value, ast.Name) and node.value.id == "ALL":
                        allowed[key] = None
                    else:
                        obj = self.ev(node.value, True)
                        if allowed.get(key, []) is not None:
                            allowed.setdefault(key, []).append(obj.term)
                else:
                    raise VerifError("modifies item %r" % it)
        finally:
            for k, v in ctx.heap.items():
                if k not in saved:
                    saved[k] = v
            ctx.heap = saved
        for key, arr in ctx.heap.items():
            before = entry_heap.get(key, ctx.heap0_consts.get(key))
            if before is None or arr.eq(before):
                continue
            if key in allowed and allowed[key] is None:
                continue
            r = z3.Int("r!frame")
            excl = [r != t for t in allowed.get(key, [])]
            goal = z3.ForAll([r], z3.Implies(z3.And(r > 0, r < ctx.wm_entry, *excl),
                                             z3.Select(arr, r) == z3.Select(before, r)))
            self.oblige("frame:%s-unchanged-outside-modifies" % key, goal, kind="frame")


class Explorer(object):
    """Enumerates the symbolic paths of one function under its contract and collects the obligations."""
    _class_index = None

    def __init__(self, contract, feas_timeout_ms=3000, max_paths=400):
        self.contract = contract
        self.pending = [[]]
        self.feas_timeout_ms = feas_timeout_ms
        self.max_paths = max_paths
        self.default_unroll = 0
        self.nonneg_index = False
        self._id = 0
        self._strings = {}
        self.auto_fields = set()
        self.assumed_asserts = set()
        self.obligations = []
        self.paths = 0
        self.inlined = set()
        self.used_contracts = set()
        self.notes = set()
        self.path_inputs = {}
        self.path_draws = {}

    def next_id(self):
        self._id += 1
        return self._id

    def intern(self, s):
        if s not in self._strings:
            self._strings[s] = 1000003 + len(self._strings)
        return self._strings[s]

    def intern_tuple(self, ctx, tup):
        fn = z3.Function("tuple%d$any" % len(tup), *([z3.IntSort()] * (len(tup) + 1)))
        return fn(*[ctx.unwrap(x, T_ANY) for x in tup])

    def class_index(self, name):
        if Explorer._class_index is None:
            idx = {}
            root = os.path.join(loader.REPO, "jellyfysh")
            for dp, dn, fns in os.walk(root):
                for fnm in fns:
                    if fnm.endswith(".py"):
                        p = os.path.join(dp, fnm)
                        try:
                            txt = open(p).read()
                        except OSError:
                            continue
                        for m in re.finditer(r"^class\s+(\w+)", txt, re.M):
                            rel = os.path.relpath(p, loader.REPO)[:-3].replace(os.sep, ".")
                            if rel.endswith(".__init__"):
                                rel = rel[:-9]
                            idx.setdefault(m.group(1), rel)
            Explorer._class_index = idx
        mod = Explorer._class_index.get(name)
        if mod is None:
            return None
        return loader.load_module(mod).classes.get(name)

    def explore(self):
        c = self.contract
        num = MODELS[c.model]
        while self.pending:
            log = self.pending.pop()
            if self.paths >= self.max_paths:
                raise VerifError("more than %d paths in %s" % (self.max_paths, c.qualname))
            ctx = Ctx(num, log, self.paths, self)
            self.paths += 1
            interp = Interp(ctx, self, c)
            try:
                interp.run_contract(c)
            except PathEnd:
                pass
            self.obligations.extend(ctx.obligations)
            self.inlined |= ctx.inlined
            self.used_contracts |= ctx.used_contracts
            self.notes |= set(ctx.notes)
            self.path_inputs[ctx.path_id] = ctx.inputs
            self.path_draws[ctx.path_id] = ctx.draws
        return self.obligations
