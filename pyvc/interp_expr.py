"""Expression evaluation (code mode: may fork and emit obligations; spec mode: pure)."""
import ast
import fractions

import z3

from . import loader
from .core import (REG, RefV, StructV, ArrV, Ty, VerifError, T_INT, T_FLOAT, T_BOOL, T_ANY, parse_type, sort_of, type_of_value)
from .values import (FuncV, BuiltinV, ClassV, ModuleV, SuperV, LambdaV, ExcV, RangeV, EnumV, ZipV, GenV, Frame,
                     RaiseSig)

STDLIB = {"math", "random", "copy", "logging", "sys", "itertools", "struct", "typing", "abc", "os", "time",
          "warnings", "enum"}
PY_BUILTINS = {"len", "range", "enumerate", "zip", "sum", "abs", "min", "max", "divmod", "int", "float", "bool",
               "isinstance", "tuple", "list", "all", "any", "super", "print", "str", "sorted", "reversed", "round",
               "set", "dict", "id", "type", "iter", "next", "hasattr", "getattr", "pow"}
EXC_NAMES = {"ValueError", "KeyError", "IndexError", "TypeError", "AttributeError", "NotImplementedError",
             "RuntimeError", "OverflowError", "MemoryError", "ZeroDivisionError", "AssertionError", "Exception",
             "StopIteration", "ConfigurationError", "SchedulerError", "LiftingSchemeError", "TagActivatorError",
             "EndOfRun", "BoundingPotentialWarning"}


def is_z3(v):
    return z3.is_expr(v)


def is_intlike(v):
    return (isinstance(v, int) and not isinstance(v, bool)) or (is_z3(v) and v.sort() == z3.IntSort())


def is_boollike(v):
    return isinstance(v, bool) or (is_z3(v) and v.sort() == z3.BoolSort())


class ExprMixin(object):
    # ------------------------------------------------------------------ helpers
    def is_floatlike(self, v):
        return isinstance(v, (float, fractions.Fraction)) or (is_z3(v) and v.sort() == self.ctx.num.sort)

    def Z(self, v):
        """to z3 term (ints / bools / floats)."""
        if isinstance(v, bool):
            return z3.BoolVal(v)
        if isinstance(v, int):
            return z3.IntVal(v)
        if isinstance(v, (float, fractions.Fraction)):
            return self.ctx.num.const(v)
        if isinstance(v, RefV):
            return v.term
        if v is None:
            return z3.IntVal(0)
        return v

    def as_bool_term(self, v):
        """Python truthiness as a z3 Bool (or Python bool)."""
        if isinstance(v, bool):
            return v
        if v is None:
            return False
        if isinstance(v, int):
            return v != 0
        if isinstance(v, (tuple, str)):
            return len(v) > 0
        if isinstance(v, RefV):
            b = v.ty.base
            if b.kind == "list":
                nz = self.ctx.list_len(v) != 0
                return z3.And(v.term != 0, nz) if v.ty.kind == "opt" else nz
            if b.kind == "dict":
                raise VerifError("truthiness of dict")
            return v.term != 0
        if is_z3(v):
            s = v.sort()
            if s == z3.BoolSort():
                return v
            if s == z3.IntSort():
                return v != 0
            if s == self.ctx.num.sort:
                return self.ctx.num.ne(v, self.ctx.num.const(0.0))
        if isinstance(v, (FuncV, BuiltinV, ClassV, LambdaV)):
            return True
        raise VerifError("truthiness of %r" % (v,))

    def class_of(self, ref):
        name = ref.ty.base.name
        return self.class_by_name(name)

    def class_by_name(self, name):
        if name in self._class_cache:
            return self._class_cache[name]
        info = None
        for fr in reversed(self.frames):
            try:
                info = loader.resolve_class(fr.module, name)
                break
            except loader.AnchorError:
                continue
        if info is None:
            info = self.explorer.class_index(name)
        self._class_cache[name] = info
        return info

    def field_type_for(self, ref, field):
        cname = ref.ty.base.name
        names = [cname]
        info = self.class_by_name(cname) if cname else None
        if info is not None:
            names = [c.name for c in info.mro()]
        ty = REG.field_type(names, field)
        if ty is None and info is not None:
            ty = self.infer_field_type(info, field)
            if ty is not None:
                REG.fields[(cname, field)] = ty
                REG.any_field.setdefault(field, ty)
                self.explorer.auto_fields.add("%s.%s:%r (inferred from its initialiser)" % (cname, field, ty))
        return ty

    def infer_field_type(self, info, field, depth=0):
        """An attribute that no sidecar declares (e.g. one introduced by an edit): take its type from its initialisers
        ``self.<field> = <expr>`` found in the class or its bases - literals, annotated parameters, conditional
        expressions, arithmetic on those, constructor calls and annotated method results, other attributes of self.
        ``None`` as one of the initialisers makes the type optional."""
        import ast as _ast
        from .core import parse_type
        found, saw_none = [], False

        def static_type(v, fn):
            if isinstance(v, _ast.Constant):
                if isinstance(v.value, bool):
                    return T_BOOL
                if isinstance(v.value, float):
                    return T_FLOAT
                if isinstance(v.value, int):
                    return T_INT
                return None
            if isinstance(v, _ast.List) and not v.elts:
                return Ty("list", [T_ANY])
            if isinstance(v, _ast.UnaryOp):
                return static_type(v.operand, fn)
            if isinstance(v, _ast.IfExp):
                a, b = static_type(v.body, fn), static_type(v.orelse, fn)
                if a is not None and b is not None:
                    if a == b:
                        return a
                    if {a.kind, b.kind} == {"int", "float"}:
                        return T_FLOAT
                    return None
                return a or b
            if isinstance(v, _ast.BinOp):
                a, b = static_type(v.left, fn), static_type(v.right, fn)
                if a is None or b is None:
                    return None
                if a.kind == "float" or b.kind == "float" or isinstance(v.op, _ast.Div):
                    return T_FLOAT if {a.kind, b.kind} <= {"int", "float"} else None
                return a if a == b else None
            if isinstance(v, _ast.Name):
                for arg in fn.args.args + fn.args.kwonlyargs:
                    if arg.arg == v.id and arg.annotation is not None:
                        try:
                            t = parse_type(_ast.unparse(arg.annotation))
                        except VerifError:
                            return None
                        return t if t.kind in ("float", "int", "bool", "ref", "list") else None
                return None
            if isinstance(v, _ast.Attribute) and isinstance(v.value, _ast.Name) and v.value.id == "self" and depth < 2:
                t = REG.field_type([c.name for c in info.mro()], v.attr)
                return t if t is not None else self.infer_field_type(info, v.attr, depth + 1)
            if isinstance(v, _ast.Call):
                f = v.func
                if isinstance(f, _ast.Name):
                    if f.id == "float":
                        return T_FLOAT
                    if f.id in ("int", "len"):
                        return T_INT
                    if self.explorer.class_index(f.id) is not None:
                        return Ty("ref", name=f.id)
                if isinstance(f, _ast.Attribute) and isinstance(f.value, _ast.Name):
                    ci = self.explorer.class_index(f.value.id)
                    if ci is not None:
                        owner, m = ci.find_method(f.attr)
                        if m is not None and m.returns is not None:
                            try:
                                t = parse_type(_ast.unparse(m.returns))
                            except VerifError:
                                return None
                            return t if t.kind in ("float", "int", "bool", "ref") else None
            return None
        for c in info.mro():
            for fn in c.methods.values():
                for node in _ast.walk(fn):
                    if isinstance(node, (_ast.Assign, _ast.AugAssign)):
                        targets = node.targets if isinstance(node, _ast.Assign) else [node.target]
                        for t in targets:
                            if isinstance(t, _ast.Attribute) and t.attr == field and isinstance(t.value, _ast.Name) \
                                    and t.value.id == "self":
                                if isinstance(node.value, _ast.Constant) and node.value.value is None:
                                    saw_none = True
                                    continue
                                ty = static_type(node.value, fn)
                                if ty is not None:
                                    found.append(ty)
        if not found:
            return None
        ty = found[0]
        for o in found[1:]:
            if o != ty:
                if {o.kind, ty.kind} == {"int", "float"}:
                    ty = T_FLOAT
                else:
                    return None
        if saw_none and ty.kind in ("ref", "list"):
            return Ty("opt", [ty])
        return ty

    # ------------------------------------------------------------------ arithmetic
    def arith(self, op, a, b, spec):
        num = self.ctx.num
        if isinstance(a, bool):
            a = int(a)
        if isinstance(b, bool):
            b = int(b)
        if isinstance(a, int) and isinstance(b, int) and op != "/":
            if op == "+": return a + b
            if op == "-": return a - b
            if op == "*": return a * b
            if op == "//": return a // b
            if op == "%": return a % b
            if op == "**":
                return a ** b if b >= 0 else self.arith("/", 1, a ** (-b), spec)
            if op == "^": return a ^ b
            if op == ">>": return a >> b
            if op == "<<": return a << b
        if is_boollike(a) and is_z3(a):
            a = z3.If(a, 1, 0)
        if is_boollike(b) and is_z3(b):
            b = z3.If(b, 1, 0)
        if is_intlike(a) and is_intlike(b) and op != "/":
            A, B = self.Z(a), self.Z(b)
            if op == "+": return A + B
            if op == "-": return A - B
            if op == "*": return A * B
            if op in ("//", "%"):
                if not spec:
                    self.oblige("no-ZeroDivisionError", B != 0, kind="safety")
                if isinstance(b, int) and b > 0:
                    return A / B if op == "//" else A % B
                q = z3.If(B > 0, A / B, z3.If(A % B == 0, A / B, A / B - 1))  # floor division for negative divisor
                # z3 div rounds so that remainder is non-negative; for B<0: A = B*q' + r, 0<=r<|B|; floor = q' if r==0 else q'-1
                q = z3.If(B > 0, A / B, z3.If(A % B == 0, A / B, A / B - 1))
                return q if op == "//" else A - B * q
            if op == "^" and isinstance(b, int) and b == 1:
                return z3.If(A % 2 == 0, A + 1, A - 1)      # flip the lowest bit (non-negative operand)
            if op == ">>":
                if isinstance(b, int):
                    return A / z3.IntVal(2 ** b)
            if op == "<<":
                if isinstance(b, int):
                    return A * z3.IntVal(2 ** b)
            if op == "**":
                if isinstance(b, int) and 0 <= b <= 8:
                    r = z3.IntVal(1)
                    for _ in range(b):
                        r = r * A
                    return r
            raise VerifError("int operator %s" % op)
        # float arithmetic
        if isinstance(a, RefV) or isinstance(b, RefV) or isinstance(a, tuple) or isinstance(b, tuple) or a is None \
                or b is None:
            raise VerifError("arithmetic %s on non-numbers %r %r" % (op, a, b))
        if op == "**":
            return self.float_pow(a, b, spec)
        A, B = self.ctx.to_float(a), self.ctx.to_float(b)
        if op == "+": return num.add(A, B)
        if op == "-": return num.sub(A, B)
        if op == "*": return num.mul(A, B)
        if op == "/":
            if not spec:
                self.oblige("no-ZeroDivisionError", num.ne(B, num.const(0.0)), kind="safety")
            return num.div(A, B)
        if op == "%":
            if not spec:
                self.oblige("no-ZeroDivisionError", num.ne(B, num.const(0.0)), kind="safety")
            return self.float_divmod(A, B, spec)[1]
        if op == "//":
            if not spec:
                self.oblige("no-ZeroDivisionError", num.ne(B, num.const(0.0)), kind="safety")
            return self.float_divmod(A, B, spec)[0]
        raise VerifError("float operator %s" % op)

    def float_pow(self, a, b, spec):
        num = self.ctx.num
        if isinstance(b, int) and not isinstance(b, bool) and 0 <= b <= 16:
            A = self.ctx.to_float(a)
            r = None
            for _ in range(b):
                r = A if r is None else num.mul(r, A)
            return r if r is not None else num.const(1.0)
        if isinstance(b, int) and b < 0 and b >= -16:
            return num.div(num.const(1.0), self.float_pow(a, -b, spec))
        bz = z3.simplify(self.ctx.to_float(b)) if not isinstance(b, int) else None
        if bz is not None and num.name == "R" and z3.is_rational_value(bz) and bz.numerator_as_long() == 1 \
                and bz.denominator_as_long() == 2:
            # x ** 0.5 is math.sqrt for x >= 0 (CPython float_pow calls pow(); negative base would give a complex)
            x = self.ctx.to_float(a)
            if not spec:
                self.oblige("no-complex-result:x**0.5-needs-x>=0", x >= 0, kind="safety")
            return self.sqrt_value(x, spec)
        return self.call_ufunc_pow(self.ctx.to_float(a), self.ctx.to_float(b), spec)

    def float_divmod(self, x, w, spec):
        """CPython float_divmod / float_rem (Objects/floatobject.c), the branch for finite operands, w != 0."""
        num, ctx = self.ctx.num, self.ctx
        if num.name == "R":
            # mathematical floor division: x = q*w + m, q integer, m in [0,w) (w>0) or (w,0] (w<0)
            wc = z3.simplify(w)
            q = ctx.fresh("fdq", z3.IntSort())
            m = ctx.fresh("fdm", z3.RealSort())
            facts = z3.And(x == z3.ToReal(q) * w + m,
                           z3.Implies(w > 0, z3.And(0 <= m, m < w)), z3.Implies(w < 0, z3.And(w < m, m <= 0)))
            if z3.is_rational_value(wc) and wc.numerator_as_long() == wc.denominator_as_long():
                qq = z3.ToInt(x)
                return z3.ToReal(qq), x - z3.ToReal(qq)
            if spec:
                raise VerifError("float %% with symbolic modulus inside a spec expression (model R)")
            ctx.assume(facts)
            return z3.ToReal(q), m
        # model F
        one = z3.simplify(w)
        is_one = z3.is_fp_value(one) and not one.isNaN() and not one.isInf() and \
            fractions.Fraction(num.to_py(one)) == 1
        if is_one and not spec and self.root_contract is not None and "divmod1" in self.root_contract.lemmas_used:
            # library lemma "cpython-float-divmod-by-one" (proved bit-precisely as its own unit from the full encoding
            # below): for 0 <= x <= 2^53, divmod(x, 1.0) == (floor(x), x - floor(x)), the subtraction being exact.
            lo, hi = num.const(0.0), num.const(2.0 ** 53)
            self.oblige("lemma-pre:divmod1:0<=x<=2**53", z3.And(z3.fpLEQ(lo, x), z3.fpLEQ(x, hi)), kind="call-pre")
            fl = z3.fpRoundToIntegral(z3.RTN(), x)
            m = z3.fpSub(z3.RNE(), x, fl)
            ctx.assume(z3.And(z3.fpEQ(z3.fpSub(z3.RTP(), x, fl), z3.fpSub(z3.RTN(), x, fl)),
                              z3.fpLEQ(lo, m), z3.fpLT(m, num.const(1.0)),
                              z3.fpEQ(z3.fpAdd(z3.RTP(), fl, m), x), z3.fpEQ(z3.fpAdd(z3.RTN(), fl, m), x)))
            return fl, m
        if is_one:
            # fmod(x, 1.0) is exact and equals x - trunc(x) for finite x (assumption "cpython_fmod_one")
            mod = num.sub(x, z3.fpRoundToIntegral(z3.RTZ(), x))
        else:
            if spec:
                raise VerifError("float %% with symbolic modulus inside a spec expression (model F)")
            mod = ctx.fresh("fmod", num.sort)
            absw = z3.fpAbs(w)
            ctx.assume(z3.And(z3.Not(z3.fpIsNaN(mod)), z3.Not(z3.fpIsInf(mod)), z3.fpLT(z3.fpAbs(mod), absw),
                              z3.Implies(z3.fpLT(z3.fpAbs(x), absw), z3.fpEQ(mod, x)),
                              z3.Or(z3.fpIsZero(mod), z3.fpIsNegative(mod) == z3.fpIsNegative(x))))
            self.ctx.notes.append("fmod abstracted (exact, |m|<|w|, sign of x, identity below |w|)")
        zero = num.const(0.0)
        div = num.sub(x, mod) if is_one else num.div(num.sub(x, mod), w)   # y / 1.0 == y for every double
        adjust = z3.And(z3.Not(z3.fpIsZero(mod)), z3.fpLT(w, zero) != z3.fpLT(mod, zero))
        mod2 = z3.If(z3.fpIsZero(mod), z3.If(z3.fpLT(w, zero), z3.fpMinusZero(num.sort), z3.fpPlusZero(num.sort)),
                     z3.If(adjust, num.add(mod, w), mod))
        div2 = z3.If(adjust, num.sub(div, num.const(1.0)), div)
        fl = z3.fpRoundToIntegral(z3.RTN(), div2)
        fl2 = z3.If(z3.fpGT(num.sub(div2, fl), num.const(0.5)), num.add(fl, num.const(1.0)), fl)
        ratio = x if is_one else num.div(x, w)
        floordiv = z3.If(z3.fpIsZero(div2), z3.If(z3.fpIsNegative(ratio), z3.fpMinusZero(num.sort), z3.fpPlusZero(num.sort)), fl2)
        return floordiv, mod2

    def compare(self, op, a, b, spec):
        num = self.ctx.num
        if op in ("is", "is not"):
            r = self.identical(a, b)
            return r if op == "is" else self.neg(r)
        if op in ("in", "not in"):
            r = self.contains(b, a, spec)
            return r if op == "in" else self.neg(r)
        if isinstance(a, tuple) and isinstance(b, tuple):
            if op in ("==", "!="):
                if len(a) != len(b):
                    return op == "!="
                parts = [self.as_bool_term(self.compare("==", x, y, spec)) for x, y in zip(a, b)]
                r = self.and_(parts)
                return r if op == "==" else self.neg(r)
            raise VerifError("tuple ordering")
        if isinstance(a, RefV) and a.ty.base.kind == "ref":
            info = self.class_by_name(a.ty.base.name)
            meth = {"==": "__eq__", "<": "__lt__", ">": "__gt__", "<=": "__le__", ">=": "__ge__", "!=": "__ne__"}[op]
            if info is not None:
                owner, fn = info.find_method(meth)
                if fn is not None:
                    fv = FuncV(owner.module, owner, fn, a, info)
                    return self.call_value(fv, [b], {}, spec)
                if op == "!=":
                    owner, fn = info.find_method("__eq__")
                    if fn is not None:
                        return self.neg(self.as_bool_term(self.call_value(FuncV(owner.module, owner, fn, a, info), [b], {}, spec)))
            if op in ("==", "!="):
                r = self.identical(a, b)
                return r if op == "==" else self.neg(r)
            raise VerifError("comparison %s on object without %s" % (op, meth))
        if isinstance(a, RefV) or isinstance(b, RefV) or a is None or b is None:
            if op in ("==", "!="):
                r = self.identical(a, b)
                return r if op == "==" else self.neg(r)
            raise VerifError("ordering on references")
        if isinstance(a, str) or isinstance(b, str):
            if isinstance(a, str) and isinstance(b, str):
                return {"==": a == b, "!=": a != b}[op]
            a, b = self.ctx.unwrap(a, T_ANY), self.ctx.unwrap(b, T_ANY)
        if is_boollike(a) and is_boollike(b):
            if isinstance(a, bool) and isinstance(b, bool):
                return {"==": a == b, "!=": a != b}.get(op, None)
            A, B = self.Z(a), self.Z(b)
            if op == "==": return A == B
            if op == "!=": return A != B
        if isinstance(a, bool): a = int(a)
        if isinstance(b, bool): b = int(b)
        if isinstance(a, int) and isinstance(b, int):
            return {"==": a == b, "!=": a != b, "<": a < b, "<=": a <= b, ">": a > b, ">=": a >= b}[op]
        if is_boollike(a): a = z3.If(a, 1, 0)
        if is_boollike(b): b = z3.If(b, 1, 0)
        if is_intlike(a) and is_intlike(b):
            A, B = self.Z(a), self.Z(b)
            return {"==": A == B, "!=": A != B, "<": A < B, "<=": A <= B, ">": A > B, ">=": A >= B}[op]
        A, B = self.ctx.to_float(a), self.ctx.to_float(b)
        if is_z3(A) and is_z3(B) and A.sort() == B.sort() and A.sort() not in (num.sort,):
            if op == "==": return A == B
            if op == "!=": return A != B
        f = {"==": num.eq, "!=": num.ne, "<": num.lt, "<=": num.le, ">": num.gt, ">=": num.ge}[op]
        return f(A, B)

    def identical(self, a, b):
        if a is None and b is None:
            return True
        if isinstance(a, RefV) or isinstance(b, RefV):
            A = a.term if isinstance(a, RefV) else (z3.IntVal(0) if a is None else self.ctx.unwrap(a, T_ANY))
            B = b.term if isinstance(b, RefV) else (z3.IntVal(0) if b is None else self.ctx.unwrap(b, T_ANY))
            return A == B
        if a is None or b is None:
            other = b if a is None else a
            if is_z3(other) and other.sort() == z3.IntSort():
                return other == 0
            return False
        if isinstance(a, tuple) and isinstance(b, tuple):
            return self.compare("==", a, b, True)
        if is_z3(a) or is_z3(b):
            return self.Z(a) == self.Z(b)
        if isinstance(a, (FuncV, BuiltinV, ClassV)) or isinstance(b, (FuncV, BuiltinV, ClassV)):
            return a is b
        return a == b

    def neg(self, r):
        r = self.as_bool_term(r)
        return (not r) if isinstance(r, bool) else z3.Not(r)

    def and_(self, parts):
        parts = [self.as_bool_term(p) for p in parts]
        if any(p is False for p in parts):
            return False
        parts = [p for p in parts if p is not True]
        if not parts:
            return True
        return z3.And(*parts) if len(parts) > 1 else parts[0]

    def or_(self, parts):
        parts = [self.as_bool_term(p) for p in parts]
        if any(p is True for p in parts):
            return True
        parts = [p for p in parts if p is not False]
        if not parts:
            return False
        return z3.Or(*parts) if len(parts) > 1 else parts[0]

    def contains(self, container, item, spec):
        ctx = self.ctx
        if isinstance(container, (tuple, list)):
            return self.or_([self.compare("==", item, x, True) for x in container])
        if isinstance(container, RefV):
            b = container.ty.base
            if b.kind == "list":
                i = ctx.fresh("ci", z3.IntSort()) if False else z3.Int("ci!%d" % self.explorer.next_id())
                el = ctx.list_get(container, i)
                eq = self.as_bool_term(self.compare("==", item, el, True))
                return z3.Exists([i], z3.And(0 <= i, i < ctx.list_len(container), eq))
            if b.kind in ("dict", "set"):
                return self.dict_has(container, item)
        if isinstance(container, BuiltinV) and container.name == "dict.keys":
            return self.dict_has(container.recv, item)
        raise VerifError("'in' on %r" % (container,))

    # ------------------------------------------------------------------ evaluation
    def ev(self, node, spec=False):
        m = getattr(self, "ev_" + type(node).__name__, None)
        if m is None:
            raise VerifError("expression %s unsupported: %s" % (type(node).__name__, ast.unparse(node)[:80]))
        return m(node, spec)

    def ev_Constant(self, node, spec):
        v = node.value
        if isinstance(v, float):
            return self.ctx.num.const(v)
        return v

    def ev_Name(self, node, spec):
        return self.lookup(node.id, spec)

    def lookup(self, name, spec):
        fr = self.frame
        if name in fr.env:
            return fr.env[name]
        if spec:
            if name in self.spec_env:
                return self.spec_env[name]
            if name in REG.specs or name in REG.ufuncs or name in self.SPEC_FUNCS:
                return BuiltinV("spec:" + name)
            if name == "inf":
                return self.ctx.num.const(float("inf"))
            if name.startswith("draw") and name[4:].isdigit():
                k = int(name[4:])
                if k < len(self.ctx.draws):
                    return self.ctx.draws[k][1]
                # no such draw on this path: an unconstrained value (clauses guard it with the path's condition)
                return self.ctx.fresh("nodraw", self.ctx.num.sort)
        if name == "__name__":
            return fr.module.name
        g = self.lookup_global(fr.module, name)
        if g is not NotImplemented:
            return g
        if name in PY_BUILTINS:
            return BuiltinV(name)
        if name in EXC_NAMES:
            return BuiltinV("exc:" + name)
        if spec and name in ("True", "False"):
            return name == "True"
        raise VerifError("name %s not resolvable in %s" % (name, fr.module.name))

    def lookup_global(self, module, name):
        key = (module.name, name)
        if key in self.ctx.globals_vals:
            return self.ctx.globals_vals[key]
        if key in REG.globals:
            ty, invs = REG.globals[key]
            v = self.ctx.fresh_of_type("g$" + name, ty)
            self.ctx.globals_vals[key] = v
            self.ctx.inputs["global:%s:%s" % key] = (v, ty)
            self.ctx.assume_ref_typed(v)
            if ty.kind == "float":
                self.ctx.assume(self.ctx.num.typing_assumption(v))
            saved_env = self.frame.env
            self.frames.append(Frame(module, None, None, None, {name: v}))
            try:
                for inv in invs:
                    self.ctx.assume(self.as_bool_term(self.ev(ast.parse(inv, mode="eval").body, True)))
            finally:
                self.frames.pop()
            return v
        r = loader.resolve_global(module, name)
        if r is None:
            return NotImplemented
        if r[0] == "class":
            return ClassV(r[1])
        if r[0] == "func":
            return FuncV(r[1], None, r[2])
        if r[0] == "module":
            return ModuleV(r[1])
        if r[0] == "external":
            return self.external_value(r[1], r[2])
        if r[0] == "assign":
            mod, expr = r[1], r[2]
            key2 = (mod.name, name)
            if key2 in self.ctx.globals_vals:
                return self.ctx.globals_vals[key2]
            if key2 in REG.globals:
                return self.lookup_global(mod, name)
            # evaluate the module-level initialiser (assumption: the global still has its initial value)
            self.frames.append(Frame(mod, None, None, None, {}))
            try:
                v = self.ev(expr, False)
            finally:
                self.frames.pop()
            self.ctx.globals_vals[key2] = v
            self.ctx.notes.append("module global %s.%s taken at its initial value" % key2)
            return v
        return NotImplemented

    def external_value(self, modname, attr):
        top = modname.split(".")[0]
        if top == "math":
            if attr == "inf":
                return self.ctx.num.const(float("inf"))
            if attr == "pi":
                import math
                return self.ctx.num.const(math.pi)
            return BuiltinV("math." + attr)
        if top in ("random", "copy", "itertools", "struct", "logging", "sys", "typing", "abc", "os", "warnings"):
            return BuiltinV(top + "." + attr)
        if modname in REG.extern_c:
            if attr == "lib":
                return BuiltinV("clibmod:" + REG.extern_c[modname])
            if attr == "ffi":
                return BuiltinV("ffi")
        return BuiltinV(modname + "." + attr)

    def ev_Attribute(self, node, spec):
        base = self.ev(node.value, spec)
        return self.getattr_value(base, node.attr, spec)

    def getattr_value(self, base, attr, spec):
        ctx = self.ctx
        if isinstance(base, ModuleV):
            if loader.is_repo_module(base.name):
                mod = loader.load_module(base.name)
                g = self.lookup_global(mod, attr)
                if g is NotImplemented:
                    sub = base.name + "." + attr
                    if loader.is_repo_module(sub):
                        return ModuleV(sub)
                    raise VerifError("attribute %s of module %s" % (attr, base.name))
                return g
            return self.external_value(base.name, attr)
        if isinstance(base, ClassV):
            owner, fn = base.info.find_method(attr)
            if fn is not None:
                return FuncV(owner.module, owner, fn, None, base.info)
            for c in base.info.mro():
                if attr in c.class_attrs:
                    self.frames.append(Frame(c.module, None, None, None, {}))
                    try:
                        return self.ev(c.class_attrs[attr], spec)
                    finally:
                        self.frames.pop()
            if attr == "__name__":
                return base.info.name
            raise VerifError("class attribute %s.%s" % (base.info.name, attr))
        if isinstance(base, SuperV):
            owner, fn = base.dyn_cls.find_method(attr, after=base.owner)
            if fn is None:
                if attr == "__init__":
                    return BuiltinV("noop")
                raise VerifError("super().%s not found" % attr)
            return FuncV(owner.module, owner, fn, base.self_val, base.dyn_cls)
        if isinstance(base, RefV):
            b = base.ty.base
            if b.kind == "list":
                return BuiltinV("list." + attr, base)
            if b.kind in ("dict", "set"):
                return BuiltinV(b.kind + "." + attr, base)
            if b.kind == "ref":
                if attr in REG.noop_fields:
                    return BuiltinV("noop-obj")
                fty = self.field_type_for(base, attr)
                if fty is not None and fty.kind == "callable":
                    # an attribute holding a pure callable (a lambda set at initialisation): its result is unconstrained
                    return BuiltinV("callfield", (fty, base))
                if fty is not None:
                    v = ctx.read_field(base, attr, fty)
                    if isinstance(v, RefV):
                        if not spec:
                            ctx.assume_ref_typed(v, ctx.field_key(attr))
                        elif not getattr(self, "quant_depth", 0) and ctx.is_entry_map(ctx.field_key(attr)):
                            # spec reads of the entry heap: closed under dereferencing as well
                            ctx.assume_ref_typed(v, ctx.field_key(attr))
                    return v
                info = self.class_by_name(b.name)
                if info is not None:
                    owner, fn = info.find_method(attr)
                    if fn is not None:
                        decos = owner.decorators.get(attr, [])
                        if "property" in decos:
                            return self.call_value(FuncV(owner.module, owner, fn, base, info), [], {}, spec)
                        if "staticmethod" in decos:
                            return FuncV(owner.module, owner, fn, None, info)
                        return FuncV(owner.module, owner, fn, base, info)
                    if attr == "__class__":
                        return ClassV(info)
                    if attr == "__ne__":
                        return BuiltinV("object.__ne__", base)
                if attr in REG.any_field and info is None:
                    return ctx.read_field(base, attr, REG.any_field[attr])
                raise VerifError("field %s.%s has no declared type (add cls(...) to the sidecar)" % (b.name, attr))
        if isinstance(base, StructV):
            return base[base.field_index(attr)]
        if is_z3(base) and attr == "__class__":
            return BuiltinV("anyclass")
        if isinstance(base, BuiltinV):
            if base.name == "anyclass" and attr == "__name__":
                return "<class name>"
            if base.name.startswith("clibmod:"):
                return BuiltinV("clib:%s:%s" % (base.name[8:], attr))
            if base.name == "ffi" and attr == "NULL":
                return None
            return BuiltinV(base.name + "." + attr, base.recv)
        if isinstance(base, ExcV):
            return base
        if isinstance(base, str):
            return BuiltinV("str." + attr, base)
        if isinstance(base, tuple) and attr in ("count", "index"):
            return BuiltinV("tuple." + attr, base)
        raise VerifError("attribute %s on %r" % (attr, base))

    def ev_BinOp(self, node, spec):
        a, b = self.ev(node.left, spec), self.ev(node.right, spec)
        op = {ast.Add: "+", ast.Sub: "-", ast.Mult: "*", ast.Div: "/", ast.FloorDiv: "//", ast.Mod: "%",
              ast.Pow: "**", ast.RShift: ">>", ast.LShift: "<<", ast.BitXor: "^"}.get(type(node.op))
        if op is None:
            raise VerifError("binary operator %s" % type(node.op).__name__)
        if op == "+" and isinstance(a, tuple) and isinstance(b, tuple):
            return a + b
        if op == "+" and isinstance(a, str) and isinstance(b, str):
            return a + b
        if op == "%" and isinstance(a, str):
            return a
        if op == "*" and isinstance(a, RefV) and a.ty.base.kind == "list":
            raise VerifError("list repetition")
        if isinstance(a, RefV) and a.ty.base.kind == "ref" and op in ("+", "-"):
            info = self.class_by_name(a.ty.base.name)
            meth = {"+": "__add__", "-": "__sub__"}[op]
            owner, fn = info.find_method(meth) if info else (None, None)
            if fn is not None:
                return self.call_value(FuncV(owner.module, owner, fn, a, info), [b], {}, spec)
        return self.arith(op, a, b, spec)

    def ev_UnaryOp(self, node, spec):
        v = self.ev(node.operand, spec)
        if isinstance(node.op, ast.Not):
            if spec:
                return self.neg(v)
            t = self.as_bool_term(v)
            if isinstance(t, bool):
                return not t
            return z3.Not(t)
        if isinstance(node.op, ast.USub):
            if isinstance(v, (int,)) and not isinstance(v, bool):
                return -v
            if is_intlike(v):
                return -self.Z(v)
            return self.ctx.num.neg(self.ctx.to_float(v))
        if isinstance(node.op, ast.UAdd):
            return v
        raise VerifError("unary operator")

    def ev_BoolOp(self, node, spec):
        is_and = isinstance(node.op, ast.And)
        if spec:
            vals = [self.ev(v, True) for v in node.values]
            return self.and_(vals) if is_and else self.or_(vals)
        last = None
        for i, sub in enumerate(node.values):
            last = self.ev(sub, False)
            if i == len(node.values) - 1:
                return last
            t = self.as_bool_term(last)
            d = self.ctx.branch(t) if not isinstance(t, bool) else t
            if is_and and not d:
                return False if is_z3(last) or isinstance(last, bool) else last
            if not is_and and d:
                return True if is_z3(last) or isinstance(last, bool) else last
        return last

    def ev_Compare(self, node, spec):
        left = self.ev(node.left, spec)
        parts = []
        for op, comp in zip(node.ops, node.comparators):
            right = self.ev(comp, spec)
            sym = {ast.Eq: "==", ast.NotEq: "!=", ast.Lt: "<", ast.LtE: "<=", ast.Gt: ">", ast.GtE: ">=",
                   ast.Is: "is", ast.IsNot: "is not", ast.In: "in", ast.NotIn: "not in"}[type(op)]
            parts.append(self.compare(sym, left, right, spec))
            left = right
        if len(parts) == 1:
            return parts[0]
        return self.and_(parts)

    def ev_IfExp(self, node, spec):
        c = self.as_bool_term(self.ev(node.test, spec))
        if isinstance(c, bool):
            return self.ev(node.body if c else node.orelse, spec)
        if spec:
            a, b = self.ev(node.body, True), self.ev(node.orelse, True)
            return self.ite(c, a, b)
        return self.ev(node.body, False) if self.ctx.branch(c) else self.ev(node.orelse, False)

    def ite(self, c, a, b):
        if isinstance(a, RefV) or isinstance(b, RefV):
            ty = a.ty if isinstance(a, RefV) else b.ty
            return RefV(z3.If(c, self.Z(a), self.Z(b)), ty)
        if isinstance(a, tuple) and isinstance(b, tuple) and len(a) == len(b):
            items = [self.ite(c, x, y) for x, y in zip(a, b)]
            return StructV(items, a.ty) if isinstance(a, StructV) else tuple(items)
        A, B = self.Z(a), self.Z(b)
        if A.sort() != B.sort():
            A, B = self.ctx.to_float(A), self.ctx.to_float(B)
        return z3.If(c, A, B)

    def ev_Tuple(self, node, spec):
        out = []
        for e in node.elts:
            if isinstance(e, ast.Starred):
                v = self.ev(e.value, spec)
                out.extend(self.iter_concrete(v))
            else:
                out.append(self.ev(e, spec))
        return tuple(out)

    def ev_List(self, node, spec):
        items = [self.ev(e, spec) for e in node.elts]
        ety = self.join_types([type_of_value(x) for x in items]) if items else T_ANY
        if spec:
            raise VerifError("list literal in spec expression")
        return self.ctx.new_list(ety, items)

    def join_types(self, tys):
        t0 = tys[0]
        for t in tys[1:]:
            if t != t0:
                if {t.kind, t0.kind} <= {"int", "float"}:
                    t0 = T_FLOAT
                elif t0.kind == "opt" and t0.args[0].kind == "any":
                    t0 = Ty("opt", [t]) if t.kind != "opt" else t
                elif t.kind == "opt" and t.args[0].kind == "any":
                    t0 = Ty("opt", [t0]) if t0.kind != "opt" else t0
                else:
                    return T_ANY
        return t0

    def ev_Subscript(self, node, spec):
        base = self.ev(node.value, spec)
        if isinstance(node.slice, ast.Slice):
            return self.slice_value(base, node.slice, spec)
        idx = self.ev(node.slice, spec)
        return self.index_value(base, idx, spec)

    def index_value(self, base, idx, spec):
        ctx = self.ctx
        if isinstance(base, tuple):
            if isinstance(idx, int):
                return base[idx]
            # symbolic index into a concrete tuple: ite chain (+ bounds obligation)
            I = self.Z(idx)
            if not spec:
                self.oblige("no-IndexError", z3.And(-len(base) <= I, I < len(base)), kind="safety")
            r = base[-1]
            for k in range(len(base) - 2, -1, -1):
                r = self.ite(z3.Or(I == k, I == k - len(base)), base[k], r)
            return r
        if isinstance(base, RefV):
            b = base.ty.base
            if b.kind == "list":
                n = ctx.list_len(base)
                I = self.Z(idx)
                if isinstance(idx, int) and idx < 0:
                    I = n + idx
                elif not isinstance(idx, int) and not spec:
                    # Python wraps negative indices; keep the plain index when it is provably non-negative here.
                    # (In spec expressions xs[i] is the mathematical select: no wrap-around.)
                    if ctx.feasible(I < 0):
                        I = z3.If(I < 0, n + I, I)
                if not spec:
                    self.oblige("no-IndexError", z3.And(0 <= I, I < n), kind="safety")
                v = ctx.list_get(base, I)
                if not spec and isinstance(v, RefV):
                    ctx.assume_ref_typed(v, ctx._el_key(base.ty.base.args[0]))
                return v
            if b.kind == "dict":
                return self.dict_get(base, idx, spec)
        if isinstance(base, dict) and isinstance(idx, str):
            # **kwargs of a call (a Python-level mapping with literal keys)
            if idx not in base:
                raise VerifError("keyword %r not passed" % idx)
            return base[idx]
        if isinstance(base, str):
            return base[idx]
        if isinstance(base, ArrV):
            return ctx.wrap(z3.Select(base.term, self.Z(idx)), base.ety)
        if is_z3(base) and z3.is_array(base):
            return z3.Select(base, self.Z(idx))
        raise VerifError("subscript on %r" % (base,))

    def slice_value(self, base, sl, spec):
        if isinstance(base, tuple):
            lo = self.ev(sl.lower, spec) if sl.lower else None
            hi = self.ev(sl.upper, spec) if sl.upper else None
            st = self.ev(sl.step, spec) if sl.step else None
            if all(x is None or isinstance(x, int) for x in (lo, hi, st)):
                return base[lo:hi:st]
        raise VerifError("slice on %r" % (base,))

    def ev_Call(self, node, spec):
        # special forms first
        if isinstance(node.func, ast.Name):
            fn = node.func.id
            if spec and fn in self.SPEC_FORMS:
                return getattr(self, "spec_" + fn)(node)
            if fn == "super" and not node.args:
                fr = self.frame
                return SuperV(fr.self_val, fr.owner, fr.dyn_cls)
        f = self.ev(node.func, spec)
        args = []
        for a in node.args:
            if isinstance(a, ast.Starred):
                args.extend(self.iter_concrete(self.ev(a.value, spec)))
            else:
                args.append(self.ev(a, spec))
        kwargs = {}
        for kw in node.keywords:
            if kw.arg is None:
                from .values import KwargsV
                v = self.ev(kw.value, spec)
                if not isinstance(v, KwargsV):
                    raise VerifError("**kwargs call with a non-parameter mapping")
                kwargs.update(v)
                continue
            kwargs[kw.arg] = self.ev(kw.value, spec)
        return self.call_value(f, args, kwargs, spec, node)

    def ev_Lambda(self, node, spec):
        return LambdaV(node, dict(self.frame.env), self.frame)

    def ev_GeneratorExp(self, node, spec):
        return GenV(node, self.frame.env, self.frame)

    def ev_ListComp(self, node, spec):
        return self.comprehension_list(node, spec)

    def ev_JoinedStr(self, node, spec):
        return "<fstring>"

    def ev_Dict(self, node, spec):
        if node.keys:
            raise VerifError("non-empty dict literal")
        return self.new_dict(T_ANY, T_ANY)

    def ev_Starred(self, node, spec):
        raise VerifError("starred expression")

    def iter_concrete(self, v):
        """Elements of an iterable with a statically known number of elements."""
        if isinstance(v, (tuple, list)):
            return list(v)
        if isinstance(v, RangeV) and all(isinstance(x, int) for x in (v.lo, v.hi, v.step)):
            return list(range(v.lo, v.hi, v.step))
        if isinstance(v, RangeV) and isinstance(v.step, int):
            lo = v.lo if isinstance(v.lo, int) else self.entailed_int(self.Z(v.lo))
            hi = v.hi if isinstance(v.hi, int) else self.entailed_int(self.Z(v.hi))
            if lo is not None and hi is not None and hi - lo <= 64:
                return list(range(lo, hi, v.step))
        if isinstance(v, RefV) and v.ty.base.kind == "list":
            n = z3.simplify(self.ctx.list_len(v))
            if z3.is_int_value(n):
                return [self.ctx.list_get(v, i) for i in range(n.as_long())]
            k = self.entailed_int(n)
            if k is not None and 0 <= k <= 64:
                return [self.ctx.list_get(v, i) for i in range(k)]
        raise VerifError("iterable without a static length: %r" % (v,))

    def entailed_int(self, term):
        """The unique integer value the path condition forces ``term`` to have (e.g. a length fixed by a requires)."""
        key = term.get_id()
        cache = self.ctx.__dict__.setdefault("_entailed", {})
        if key in cache and cache[key][0] == len(self.ctx.pc):
            return cache[key][1]
        from .core import _has_quantifier
        s = z3.Solver()
        s.set("timeout", 2000)
        for p in self.ctx.pc:
            if not _has_quantifier(p):
                s.add(p)
        val = None
        if s.check() == z3.sat:
            m = s.model().eval(term, model_completion=True)
            if z3.is_int_value(m):
                s.add(term != m)
                if s.check() == z3.unsat:
                    val = m.as_long()
        cache[key] = (len(self.ctx.pc), val)
        return val
