"""Counter-model -> concrete inputs -> native run of the real function from $VERIF_REPO with the contract checked."""
import copy
import importlib
import json
import math
import os
import random
import subprocess
import sys

import z3

from . import loader
from .core import REG, RefV, MODELS, sort_of


# ------------------------------------------------------------------------------ model -> JSON values
def _py_num(model, term, num):
    v = model.eval(term, model_completion=True)
    s = v.sort()
    if s == z3.IntSort():
        return v.as_long()
    if s == z3.BoolSort():
        return z3.is_true(v)
    f = num.to_py(v)
    if isinstance(f, float) and (math.isinf(f) or math.isnan(f)):
        return {"$float": repr(f)}
    return f


class Concretizer(object):
    def __init__(self, model, explorer, heap0, num):
        self.model, self.explorer, self.heap0, self.num = model, explorer, heap0, num
        self.objects = {}

    def value(self, v, ty):
        m, num = self.model, self.num
        if isinstance(v, tuple):
            return {"$tuple": [self.value(x, a) for x, a in zip(v, ty.args)]}
        if isinstance(v, RefV):
            rid = m.eval(v.term, model_completion=True).as_long()
            if rid == 0:
                return None
            b = v.ty.base
            key = "%s#%d" % (b.kind if b.kind != "ref" else b.name, rid)
            if key in self.objects:
                return {"$ref": key}
            if b.kind == "list":
                self.objects[key] = obj = {"$list": [], "$id": key}
                ety = b.args[0]
                n = 0
                if "len" in self.heap0:
                    n = m.eval(z3.Select(self.heap0["len"], v.term), model_completion=True).as_long()
                n = max(0, min(n, 64))
                from .core import sort_key
                ek = "el$" + sort_key(sort_of(ety, num))
                for i in range(n):
                    if ek in self.heap0:
                        t = z3.Select(z3.Select(self.heap0[ek], v.term), z3.IntVal(i))
                        obj["$list"].append(self.term_value(t, ety))
                    else:
                        obj["$list"].append(self.default(ety))
                return {"$ref": key}
            if b.kind == "ref":
                info = self.explorer.class_index(b.name)
                self.objects[key] = obj = {"$class": (info.module.name + ":" + info.name) if info else b.name,
                                           "$fields": {}, "$id": key}
                names = [c.name for c in info.mro()] if info else [b.name]
                for (cn, f), fty in list(REG.fields.items()):
                    if cn in names:
                        hk = "f$" + f
                        if hk in self.heap0:
                            obj["$fields"][f] = self.term_value(z3.Select(self.heap0[hk], v.term), fty)
                        else:
                            obj["$fields"][f] = self.default(fty)
                return {"$ref": key}
            return {"$opaque": rid}
        if isinstance(v, (int, float, bool, str)) or v is None:
            return v
        return _py_num(m, v, num)

    def term_value(self, term, ty):
        from .core import Ctx
        if ty.reflike:
            return self.value(RefV(term, ty), ty)
        if ty.kind == "tuple":
            s = sort_of(ty, self.num)
            return {"$tuple": [self.term_value(s.accessor(0, i)(term), a) for i, a in enumerate(ty.args)]}
        return _py_num(self.model, term, self.num)

    def default(self, ty):
        if ty.kind == "float":
            return 0.0
        if ty.kind == "bool":
            return False
        if ty.kind in ("int", "any"):
            return 0
        return None


def concretize(ob, explorer, model, num):
    inputs = explorer.path_inputs.get(ob.path, {})
    draws = explorer.path_draws.get(ob.path, [])
    heap0 = {}
    for d in model.decls():
        if d.name().startswith("H0$"):
            heap0[d.name()[3:]] = d()
    cz = Concretizer(model, explorer, heap0, num)
    out = {"params": {}, "globals": {}, "draws": []}
    for name, (v, ty) in inputs.items():
        val = cz.value(v, ty)
        if name.startswith("global:"):
            _, mod, gname = name.split(":")
            out["globals"]["%s:%s" % (mod, gname)] = val
        else:
            out["params"][name] = val
    for kind, term in draws:
        out["draws"].append([kind, _py_num(model, term, num)])
    out["objects"] = cz.objects
    return out


# ------------------------------------------------------------------------------ native side
class Builder(object):
    def __init__(self, objects):
        self.specs = objects
        self.built = {}

    def build(self, v):
        if isinstance(v, dict):
            if "$float" in v:
                return float(v["$float"])
            if "$tuple" in v:
                return tuple(self.build(x) for x in v["$tuple"])
            if "$opaque" in v:
                return ("opaque", v["$opaque"])
            if "$ref" in v:
                key = v["$ref"]
                if key in self.built:
                    return self.built[key]
                spec = self.specs[key]
                if "$list" in spec:
                    obj = []
                    self.built[key] = obj
                    obj.extend(self.build(x) for x in spec["$list"])
                    return obj
                modname, _, cname = spec["$class"].partition(":")
                klass = getattr(importlib.import_module(modname), cname)
                obj = object.__new__(klass)
                self.built[key] = obj
                for f, fv in spec["$fields"].items():
                    try:
                        object.__setattr__(obj, f, self.build(fv))
                    except AttributeError:
                        pass
                return obj
        return v


def native_replay(case):
    """Runs in a subprocess with PYTHONPATH=<repo>:/verif.  Returns a dict that is printed as JSON."""
    from pyvc import native_eval
    for m in case.get("sidecars", []):
        importlib.import_module(m)
    c = REG.contracts[case["qualname"]]
    modname, _, rest = c.qualname.partition(":")
    module = importlib.import_module(modname)
    b = Builder(case["inputs"].get("objects", {}))
    params = {k: b.build(v) for k, v in case["inputs"]["params"].items()}
    for key, v in case["inputs"].get("globals", {}).items():
        gm, _, gn = key.partition(":")
        setattr(importlib.import_module(gm), gn, b.build(v))
    draws = list(case["inputs"].get("draws", []))

    def make(kind, orig):
        def fake(*a, **k):
            for i, (dk, dv) in enumerate(draws):
                if dk == kind:
                    draws.pop(i)
                    if kind == "choice":
                        return a[0][dv]
                    return dv
            return orig(*a, **k)
        return fake
    for kind in ("uniform", "random", "expovariate", "choice", "randint"):
        setattr(random, kind, make(kind, getattr(random, kind)))
    if "." in rest:
        cname, _, fname = rest.partition(".")
        klass = getattr(module, cname)
        raw = klass.__dict__.get(fname)
        if raw is None:
            for k2 in klass.__mro__:
                if fname in k2.__dict__:
                    raw = k2.__dict__[fname]
                    break
        if isinstance(raw, staticmethod):
            fn = raw.__func__
        else:
            fn = raw
    else:
        fn = getattr(module, rest)
    import inspect
    names = list(inspect.signature(fn).parameters)
    args = [params[n] for n in names if n in params]
    env = dict(params)
    natives = {"$module": module}
    out = {"requires": [], "ensures": [], "raised": None}
    for r in c.requires:
        out["requires"].append([r, native_eval.eval_clause(r, env, None, c.model, None, natives, strict=True, tol=c.native_tol)])
    old_env = copy.deepcopy(env)
    pre_ids = native_eval.collect_ids(env.values())
    try:
        result = fn(*args)
        out["result"] = repr(result)[:300]
    except BaseException as e:   # noqa
        out["raised"] = type(e).__name__
        out["result"] = repr(e)[:300]
        result = None
    env["result"] = result
    if out["raised"] is None:
        for e in c.ensures:
            out["ensures"].append([e, native_eval.eval_clause(e, env, old_env, c.model, pre_ids, natives, tol=c.native_tol)])
    out["violated"] = [t for t, v in out["ensures"] if v is False]
    if out["raised"] is not None and out["raised"] in c.may_raise:
        for cl in c.may_raise[out["raised"]]:
            if native_eval.eval_clause(cl, env, old_env, c.model, pre_ids, natives, tol=c.native_tol) is False:
                out["violated"].append("raised-%s:%s" % (out["raised"], cl))
    elif out["raised"] is not None and out["raised"] not in c.raises:
        out["violated"].append("no-exception:" + out["raised"])
    out["requires_hold"] = all(v is not False for _, v in out["requires"])
    return out


def run_native(case, repo=None, timeout=120):
    env = dict(os.environ)
    env["PYTHONPATH"] = "%s:%s" % (repo or loader.REPO, os.path.dirname(os.path.dirname(os.path.abspath(__file__))))
    env["VERIF_REPO"] = repo or loader.REPO
    p = subprocess.run([sys.executable, "-m", "pyvc.replay"], input=json.dumps(case), capture_output=True, text=True,
                       env=env, timeout=timeout, cwd=os.path.dirname(os.path.dirname(os.path.abspath(__file__))))
    if p.returncode != 0:
        return {"error": (p.stderr or "")[-800:]}
    try:
        return json.loads(p.stdout.strip().splitlines()[-1])
    except (ValueError, IndexError):
        return {"error": "unparsable replay output: " + p.stdout[-300:]}


if __name__ == "__main__":
    case = json.loads(sys.stdin.read())
    print(json.dumps(native_replay(case)))
