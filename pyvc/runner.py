"""Verify one contract: explore paths, discharge, classify, attach counter-models."""
import time
import traceback

import z3

from . import loader
from .core import REG, VerifError, MODELS
from .interp import Explorer
from .discharge import discharge, get_model


class UnitResult(object):
    def __init__(self, name, kind="function"):
        self.name = name
        self.kind = kind
        self.status = None        # proved | failed | undecided | vacuous | out_of_reach | anchor | crash
        self.detail = ""
        self.obligations = []
        self.paths = 0
        self.seconds = 0.0
        self.source_hash = None
        self.inlined = []
        self.used_contracts = []
        self.notes = []
        self.assumed_asserts = []
        self.failed = []          # obligations with result sat (not expected)
        self.undecided = []
        self.vacuous = []
        self.model_name = None
        self.explorer = None
        self.props = []
        self.trusted = []

    def counts(self):
        real = [o for o in self.obligations if not o.expect_fail]
        return len(real), sum(1 for o in real if o.result == "unsat")

    def summary(self):
        n, d = self.counts()
        return "%-70s %-12s paths=%-3d obligations=%d/%d  %.1fs" % (self.name, self.status, self.paths, d, n, self.seconds)


def classify(res):
    real = [o for o in res.obligations if not o.expect_fail]
    res.failed = [o for o in real if o.result == "sat"]
    res.undecided = [o for o in real if o.result not in ("sat", "unsat")]
    groups = {}
    for o in res.obligations:
        if o.expect_fail:
            groups.setdefault(o.name, []).append(o)
    res.vacuous = []
    for name, obs in groups.items():
        if not any(o.result == "sat" for o in obs):
            if all(o.kind == "cover-optional" for o in obs):
                # reachability of a permitted (may_raise) exception: informational, see interp.verify
                if all(o.result == "unsat" for o in obs):
                    res.notes.append("permitted exception never raised in the model: %s unreachable" % name)
                else:
                    res.notes.append("cover/canary %s undecided (optional)" % name)
            elif all(o.result == "unsat" for o in obs):
                res.vacuous.append(name)
            else:
                res.notes.append("cover/canary %s undecided" % name)
    if res.failed:
        res.status = "failed"
    elif res.undecided:
        res.status = "undecided"
    elif res.vacuous:
        res.status = "vacuous"
    elif not real:
        res.status = "vacuous"
        res.detail = "zero obligations"
    else:
        res.status = "proved"


def verify_contract(c, timeout_ms=30000, jobs=None, defer=False):
    res = UnitResult(c.key)
    res.model_name = c.model
    res.props = list(c.prop)
    res.trusted = list(c.trusted) + ["assume: " + a for a in c.assume]
    t0 = time.time()
    try:
        if ".c:" in c.qualname:
            import hashlib
            from .cfront import parse_c_file
            from pycparser import c_generator
            rel, _, fname = c.qualname.partition(":")
            funcs = parse_c_file(rel)[1]
            if fname not in funcs:
                raise loader.AnchorError("C function %s not in %s" % (fname, rel))
            res.source_hash = hashlib.sha256(c_generator.CGenerator().visit(funcs[fname]).encode()).hexdigest()[:16]
            res.kind = "c-function"
        else:
            module, cls, fn = loader.find_function(c.qualname)
            res.source_hash = loader.source_hash(fn, module)
        ex = Explorer(c)
        res.explorer = ex
        obs = ex.explore()
        res.obligations = obs
        res.paths = ex.paths
        res.inlined = sorted(ex.inlined)
        res.used_contracts = sorted(ex.used_contracts)
        res.notes = sorted(ex.notes)
        res.assumed_asserts = sorted(ex.assumed_asserts)
        if not defer:
            discharge(obs, timeout_ms=timeout_ms, jobs=jobs)
            classify(res)
    except loader.AnchorError as e:
        res.status, res.detail = "anchor", str(e)
    except VerifError as e:
        res.status, res.detail = "out_of_reach", str(e)
    except Exception as e:   # engine bug: exit 3, never a verdict
        res.status, res.detail = "crash", "%s: %s\n%s" % (type(e).__name__, e, traceback.format_exc())
    res.seconds = time.time() - t0
    return res


def verify_lemma(l, timeout_ms=30000, jobs=None, defer=False):
    """A lemma over contracts: variables are universally quantified, the instantiated requires/ensures of the
    contracts in ``uses`` and the ``assumes`` are hypotheses, ``goal`` is the obligation."""
    import ast
    from .core import Ctx, parse_type
    from .interp import Interp
    from .values import Frame
    res = UnitResult("lemma:" + l.name, kind="lemma")
    res.model_name = l.model
    res.props = list(l.prop)
    res.trusted = list(l.trusted)
    t0 = time.time()
    try:
        ex = Explorer(None)
        ctx = Ctx(MODELS[l.model], [], 0, ex)
        it = Interp(ctx, ex, None)
        env = {}
        for vn, vt in l.variables.items():
            ty = vt if vt.startswith("arr[") else parse_type(vt)
            v = it.fresh_param(vn, ty)
            env[vn] = v
        mod = loader.load_module("jellyfysh.base.time")
        it.frames.append(Frame(mod, None, None, None, env))
        it.prefix = l.name + "/"
        it.add_axioms(l.axioms)
        for qual, mapping in l.uses:
            c = REG.contracts[qual]
            sub = {formal: env[actual] for formal, actual in mapping.items()}
            fr = Frame(mod, None, None, None, sub)
            it.frames.append(fr)
            try:
                for cl in c.requires + c.ensures:
                    ctx.assume(it.eval_clause(cl, {"result": sub.get("result")}))
            finally:
                it.frames.pop()
            res.used_contracts.append(qual)
        for a in l.assumes:
            ctx.assume(it.eval_clause(a))
        if l.canary:
            ctx.oblige(it.prefix + "cover:hypotheses-consistent", z3.BoolVal(False), "cover", True)
        it.oblige("goal:%s" % l.goal[:80], it.eval_clause(l.goal), kind="lemma")
        res.obligations = ctx.obligations
        res.paths = 1
        res.explorer = ex
        ex.path_inputs[0] = ctx.inputs
        if not defer:
            discharge(res.obligations, timeout_ms=timeout_ms, jobs=jobs)
            classify(res)
    except VerifError as e:
        res.status, res.detail = "out_of_reach", str(e)
    except Exception as e:
        res.status, res.detail = "crash", "%s: %s\n%s" % (type(e).__name__, e, traceback.format_exc())
    res.seconds = time.time() - t0
    return res


def finish_all(units, timeout_ms=30000, jobs=None):
    """Discharge the obligations of all deferred units in ONE pool (so slow queries of different units overlap)."""
    pending = [u for u in units if u.status is None]
    obs = [o for u in pending for o in u.obligations if o.result is None]
    t0 = time.time()
    discharge(obs, timeout_ms=timeout_ms, jobs=jobs)
    for u in pending:
        classify(u)
        u.seconds += sum(o.seconds for o in u.obligations)
