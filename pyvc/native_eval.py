"""Native (CPython) evaluation of contract clauses on real objects: the replay oracle and the run-time monitor.

In model R clauses talk about reals; natively we compute with exact rationals on the float values and compare
with a relative tolerance that is lenient *towards the clause holding* (so a replay only confirms violations that
are not rounding artefacts)."""
import ast
import copy
import fractions
import math

from .core import REG

TOL = fractions.Fraction(1, 10 ** 9)


class NotEvaluable(Exception):
    pass


def _num(x):
    if isinstance(x, bool):
        return int(x)
    if isinstance(x, float):
        if math.isinf(x) or math.isnan(x):
            return x
        return fractions.Fraction(x)
    return x


def _is_numlike(x):
    return isinstance(x, (int, float, fractions.Fraction)) and not isinstance(x, bool)


class NativeEval(object):
    def __init__(self, env, old_env=None, model="R", pre_ids=None, natives=None, tol=TOL):
        self.tol = tol
        self.env = env
        self.old_env = old_env
        self.model = model
        self.pre_ids = pre_ids or set()
        self.natives = natives or {}

    # three-valued comparison: None when the two reals are closer than the tolerance (model R: the code rounds, the
    # clause does not - such a comparison decides nothing); tol == 0 or model F: exact
    def cmp(self, op, a, b, pol=True):
        exact = {"==": lambda x, y: x == y, "!=": lambda x, y: x != y, "<": lambda x, y: x < y,
                 "<=": lambda x, y: x <= y, ">": lambda x, y: x > y, ">=": lambda x, y: x >= y}[op]
        if self.model == "F" or not (_is_numlike(a) and _is_numlike(b)) or \
                (isinstance(a, int) and isinstance(b, int)) or self.tol == 0:
            return exact(a, b)
        for x in (a, b):
            if isinstance(x, float) and math.isnan(x):
                return op == "!="
        if any(isinstance(x, float) and math.isinf(x) for x in (a, b)):
            return exact(float(a), float(b))
        a, b = fractions.Fraction(a), fractions.Fraction(b)
        if a == b:
            return exact(a, b)      # exactly equal values decide every comparison
        if abs(a - b) <= self.tol * max(1, abs(a), abs(b)):
            return None
        return exact(a, b)

    def ev(self, node, pol=True):
        m = getattr(self, "e_" + type(node).__name__, None)
        if m is None:
            raise NotEvaluable(type(node).__name__)
        return m(node, pol)

    def e_Constant(self, n, pol):
        return _num(n.value)

    def e_Name(self, n, pol):
        if n.id in self.env:
            return self.env[n.id]
        if n.id in ("True", "False", "None"):
            return {"True": True, "False": False, "None": None}[n.id]
        if n.id == "inf":
            return math.inf
        mod = self.natives.get("$module")
        if mod is not None and hasattr(mod, n.id):
            return _num(getattr(mod, n.id))
        raise NotEvaluable("name " + n.id)

    def e_Attribute(self, n, pol):
        try:
            return _num(getattr(self.ev(n.value), n.attr))
        except AttributeError:
            raise NotEvaluable("attribute " + n.attr)

    def e_Subscript(self, n, pol):
        try:
            return _num(self.ev(n.value)[self.ev(n.slice)])
        except (IndexError, KeyError, TypeError):
            raise NotEvaluable("subscript")

    def e_Tuple(self, n, pol):
        return tuple(self.ev(e) for e in n.elts)

    def e_UnaryOp(self, n, pol):
        if isinstance(n.op, ast.Not):
            return k_not(self.ev(n.operand))
        v = self.ev(n.operand)
        return -v if isinstance(n.op, ast.USub) else v

    def e_BoolOp(self, n, pol):
        vals = [self.ev(v) for v in n.values]
        return k_and(vals) if isinstance(n.op, ast.And) else k_or(vals)

    def e_BinOp(self, n, pol):
        a, b = self.ev(n.left), self.ev(n.right)
        if isinstance(a, float) or isinstance(b, float):   # inf / nan
            a, b = float(a), float(b)
        op = type(n.op)
        try:
            if op is ast.Add: return a + b
            if op is ast.Sub: return a - b
            if op is ast.Mult: return a * b
            if op is ast.Div: return fractions.Fraction(a) / fractions.Fraction(b) if not isinstance(a, float) else a / b
            if op is ast.FloorDiv: return a // b
            if op is ast.Mod: return a % b
            if op is ast.Pow:
                if isinstance(b, fractions.Fraction) and b.denominator != 1:
                    return _num(float(a) ** float(b))
                return a ** int(b) if isinstance(b, fractions.Fraction) else a ** b
        except ZeroDivisionError:
            raise NotEvaluable("division by zero in clause")
        raise NotEvaluable("operator")

    def e_Compare(self, n, pol):
        left = self.ev(n.left)
        out = True
        for op, comp in zip(n.ops, n.comparators):
            right = self.ev(comp)
            if isinstance(op, (ast.Is, ast.IsNot)):
                r = left is right
                r = r if isinstance(op, ast.Is) else not r
            elif isinstance(op, (ast.In, ast.NotIn)):
                r = any(x is left or x == left for x in right)
                r = r if isinstance(op, ast.In) else not r
            else:
                sym = {ast.Eq: "==", ast.NotEq: "!=", ast.Lt: "<", ast.LtE: "<=", ast.Gt: ">", ast.GtE: ">="}[type(op)]
                if left is None and isinstance(right, bool) or right is None and isinstance(left, bool):
                    r = None   # (undetermined) == bool
                elif isinstance(left, bool) or isinstance(right, bool):
                    r = {"==": left == right, "!=": left != right}.get(sym)
                else:
                    r = self.cmp(sym, left, right, pol)
            out = k_and([out, r])
            left = right
        return out

    def e_IfExp(self, n, pol):
        c = self.ev(n.test)
        if c is None:
            raise NotEvaluable("undetermined condition")
        return self.ev(n.body, pol) if c else self.ev(n.orelse, pol)

    def e_Lambda(self, n, pol):
        return n

    def e_Call(self, n, pol):
        if not isinstance(n.func, ast.Name):
            # method call on a native object (pure getters only)
            f = self.ev(n.func)
            return _num(f(*[self.ev(a) for a in n.args]))
        name = n.func.id
        if name in ("forall", "exists"):
            lam = n.args[-1]
            if len(n.args) != 3:
                raise NotEvaluable("unbounded quantifier")
            lo, hi = int(self.ev(n.args[0])), int(self.ev(n.args[1]))
            var = lam.args.args[0].arg

            def body(i):
                saved = self.env.get(var, None)
                self.env[var] = i
                try:
                    return self.ev(lam.body, pol)
                finally:
                    if saved is None:
                        self.env.pop(var, None)
                    else:
                        self.env[var] = saved
            if len(lam.args.args) != 1:
                raise NotEvaluable("multi-variable quantifier")
            vals = [body(i) for i in range(lo, hi)]
            return k_and(vals) if name == "forall" else k_or(vals)
        if name == "old":
            if self.old_env is None:
                raise NotEvaluable("old() without pre-state")
            sub = NativeEval(self.old_env, None, self.model, self.pre_ids, self.natives, self.tol)
            return sub.ev(n.args[0], pol)
        if name == "implies":
            return k_or([k_not(self.ev(n.args[0])), self.ev(n.args[1])])
        if name == "iff":
            a, b = self.ev(n.args[0]), self.ev(n.args[1])
            return None if a is None or b is None else bool(a) == bool(b)
        if name == "ite":
            c = self.ev(n.args[0])
            if c is None:
                raise NotEvaluable("undetermined condition")
            return self.ev(n.args[1], pol) if c else self.ev(n.args[2], pol)
        if name == "let":
            lam, v = n.args[0], self.ev(n.args[1])
            var = lam.args.args[0].arg
            saved = dict(self.env)
            self.env[var] = v
            try:
                return self.ev(lam.body, pol)
            finally:
                self.env.clear()
                self.env.update(saved)
        args = [self.ev(a) for a in n.args]
        if name in REG.specs:
            params, body, _ = REG.specs[name]
            sub = NativeEval(dict(zip(params, args)), self.old_env, self.model, self.pre_ids, self.natives, self.tol)
            sub.env.update({k: v for k, v in self.env.items() if k not in sub.env and k.startswith("$")})
            return sub.ev(body, pol)
        if name in self.natives:
            return _num(self.natives[name](*args))
        if name == "isinf": return isinstance(args[0], float) and math.isinf(args[0])
        if name == "isnan": return isinstance(args[0], float) and math.isnan(args[0])
        if name == "finite": return not (isinstance(args[0], float) and (math.isinf(args[0]) or math.isnan(args[0])))
        if name == "is_int":
            x = args[0]
            return not (isinstance(x, float)) and fractions.Fraction(x).denominator == 1
        if name == "real": return args[0]
        if name == "abs": return abs(args[0])
        if name == "min": return min(args)
        if name == "max": return max(args)
        if name == "len": return len(args[0])
        if name == "fresh": return id(args[0]) not in self.pre_ids
        if name == "allocated_before": return id(args[0]) in self.pre_ids
        if name == "same": return args[0] is args[1]
        if name == "floor": return math.floor(args[0])
        if name == "trunc": return math.trunc(args[0])
        if name == "has": return args[1] in args[0]
        if name == "get": return _num(args[0][args[1]])
        if name == "sqrt": return _num(math.sqrt(args[0]))
        if name == "pow": return _num(float(args[0]) ** float(args[1]))
        if name == "glob":
            import importlib
            return _num(getattr(importlib.import_module(args[0]), args[1]))
        if name in ("add_rtp", "add_rtn", "rn_add"): return _num(float(args[0]) + float(args[1])) if self.model == "F" else args[0] + args[1]
        if name in ("sub_rtp", "sub_rtn", "rn_sub"): return _num(float(args[0]) - float(args[1])) if self.model == "F" else args[0] - args[1]
        if name == "exact_add":
            a, b = float(args[0]), float(args[1])
            return fractions.Fraction(a) + fractions.Fraction(b) == fractions.Fraction(a + b)
        if name == "exact_sub":
            a, b = float(args[0]), float(args[1])
            return fractions.Fraction(a) - fractions.Fraction(b) == fractions.Fraction(a - b)
        raise NotEvaluable("function " + name)


def k_not(a):
    return None if a is None else (not a)


def k_and(vals):
    if any(v is False for v in vals):
        return False
    if any(v is None for v in vals):
        return None
    return all(bool(v) for v in vals)


def k_or(vals):
    if any(v is True for v in vals):
        return True
    if any(v is None for v in vals):
        return None
    return any(bool(v) for v in vals)


def eval_clause(text, env, old_env=None, model="R", pre_ids=None, natives=None, strict=False, tol=None):
    """True / False / None (not evaluable natively).  strict=False: comparisons are lenient towards the clause
    holding (postconditions: only robust violations count); strict=True: lenient towards it failing
    (preconditions: only inputs that satisfy them robustly are used)."""
    node = ast.parse(text.strip(), mode="eval").body
    try:
        r = NativeEval(dict(env), old_env, model, pre_ids, natives, TOL if tol is None else tol).ev(node)
        return None if r is None else bool(r)
    except NotEvaluable:
        return None


def collect_ids(values):
    """ids of all mutable objects reachable from the given values (pre-state allocation set)."""
    seen = set()
    stack = list(values)
    while stack:
        v = stack.pop()
        if isinstance(v, (int, float, str, bool, type(None))):
            continue
        if id(v) in seen:
            continue
        seen.add(id(v))
        if isinstance(v, (list, tuple, set)):
            stack.extend(v)
        elif isinstance(v, dict):
            stack.extend(v.keys())
            stack.extend(v.values())
        elif hasattr(v, "__dict__"):
            stack.extend(vars(v).values())
    return seen
