"""pyvc - a small contract-based deductive verifier for the Python and C sources of JeLLyFysh.

The verified text is the running text: every run parses the files under $VERIF_REPO (default /repo),
executes the anchored functions symbolically path by path, and emits one verification condition per
contract clause, assertion, bounds check and loop-invariant step.  See /verif/DESIGN.md.
"""
