"""Sidecar API: contracts, spec functions, loop specs.  Clauses are Python expression *strings*: the same text is
translated to SMT (proof) and evaluated natively (replay / monitors)."""
import ast

from .core import REG, parse_type


class LoopSpec(object):
    def __init__(self, invariant=(), modifies=(), variant=None, index=None, unroll=None):
        self.invariant = list(invariant)
        self.modifies = list(modifies)
        self.variant = variant
        self.index = index      # name under which the hidden index of a ``for`` loop is visible in invariants
        self.unroll = unroll


class Contract(object):
    def __init__(self, qualname, prop, model="R", params=None, returns=None, requires=(), ensures=(), modifies=(),
                 raises=None, loops=None, inline=(), canary=None, trusted=(), leading_asserts="oblige",
                 globals=None, fresh_result=False, note="", ghost=None, pure=False, assume_only=False,
                 replay=None, allocates=True, axioms=(), assume=(), tag=None, lemmas_used=(), native_tol=None, may_raise=None, native_search=True, native_gen=None):
        self.qualname = qualname
        self.tag = tag
        self.tag_is_lemma = bool(tag) and tag.startswith("lemma")
        self.key = qualname + ("#" + tag if tag else "")
        self.prop = prop if isinstance(prop, (list, tuple)) else [prop]
        self.model = model
        self.params = {k: parse_type(v) for k, v in (params or {}).items()}
        self.returns = parse_type(returns) if isinstance(returns, str) else returns
        self.requires = list(requires)
        # clauses written "native: <expr>" are NOT proof obligations: the verifier cannot decide them; they are evaluated
        # only by the native search on the real code (a bounded stand-in, reported as such)
        self.native_ensures = [e[len("native:"):].strip() for e in ensures if e.startswith("native:")]
        self.ensures = [e for e in ensures if not e.startswith("native:")]
        self.modifies = list(modifies)
        self.raises = dict(raises or {})      # exception name -> list of clauses that must hold when it is raised
        self.loops = dict(loops or {})
        self.inline = set(inline)
        self.canary = canary
        self.trusted = list(trusted)
        self.leading_asserts = leading_asserts  # "oblige" | "requires"
        self.globals = list(globals or [])   # names of module globals read by the function (declared via module_global)
        self.fresh_result = fresh_result
        self.note = note
        self.ghost = ghost or {}
        self.pure = pure
        self.assume_only = assume_only          # interface / trusted contract: used at call sites, body not verified
        self.replay = replay
        self.allocates = allocates
        self.axioms = list(axioms)
        self.lemmas_used = list(lemmas_used)
        self.native_gen = native_gen   # python source of  def gen(rng): return {param: value}  using the real constructors
        self.native_search = native_search   # False: inputs cannot be built natively by type (C-backed objects)
        self.may_raise = {k: [c for c in v if not c.startswith("native:")] for k, v in dict(may_raise or {}).items()}
        self.native_may_raise = {k: [c[len("native:"):].strip() for c in v if c.startswith("native:")]
                                 for k, v in dict(may_raise or {}).items()}   # exception name -> clauses that hold in the post-state when it is raised
        self.native_tol = native_tol   # tolerance of the native (CPython) clause evaluation; 0 = exact
        self.assume = list(assume)   # extra assumptions (listed as trusted)


def contract(qualname, prop, **kw):
    c = Contract(qualname, prop, **kw)
    REG.contracts[c.key] = c
    return c


def cls(name, **fields):
    REG.declare_class(name, fields)


def struct(name, *fields):
    """A by-value record (C struct): struct("HeapEntry", ("time_quotient", "float"), ...)"""
    from .core import declare_struct
    return declare_struct(name, list(fields))


def spec(signature, body):
    """spec("norm(t)", "0 <= t._remainder < 1")"""
    name, _, rest = signature.partition("(")
    params = [p.strip() for p in rest.rstrip(")").split(",") if p.strip()]
    REG.specs[name.strip()] = (params, ast.parse(body.strip(), mode="eval").body, body)


def ufunc(name, arg_types, ret_type):
    REG.ufuncs[name] = (list(arg_types), ret_type)


def axiom(name, variables, body, trusted=False):
    """variables: {"j": "int"}; body an expression string over the variables, ufuncs and specs."""
    REG.axioms.append((name, dict(variables), body, trusted))


def module_global(module, name, type_str, invariant=()):
    REG.globals[(module, name)] = (parse_type(type_str), list(invariant))


class Lemma(object):
    def __init__(self, name, prop, model="R", variables=None, uses=(), assumes=(), goal=None, axioms=(), trusted=(),
                 note="", canary=True):
        self.name = name
        self.prop = prop if isinstance(prop, (list, tuple)) else [prop]
        self.model = model
        self.variables = dict(variables or {})
        self.uses = list(uses)        # (contract qualname, {formal: lemma variable}) - its requires+ensures are assumed
        self.assumes = list(assumes)
        self.goal = goal
        self.axioms = list(axioms)
        self.trusted = list(trusted)
        self.note = note
        self.canary = canary


def lemma(name, prop, **kw):
    l = Lemma(name, prop, **kw)
    REG.lemmas.append(l)
    return l
