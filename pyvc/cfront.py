"""C front end: symbolic execution of functions parsed by pycparser from the *current* .c files, on the same heap
model / obligation machinery as the Python front end.

What the mechanical extraction drops: comments, #include lines, include guards (gcc -fpreprocessed -dD -E -P);
``typedef unsigned long size_t`` is prepended.  Nothing else.

Semantics assumed (listed in the evidence): ``unsigned`` / ``size_t`` values are mathematical integers with an explicit
no-wrap obligation at every +, -, *, <<, ++, -- (so wrap-around is PROVED absent, not ignored); ``double`` in model R;
structs by value are records; ``p->arr[i]`` yields a bounds obligation against the allocated element count of the
block; realloc returns NULL or a block of the requested count that preserves the common prefix; a call through a
function pointer is an uninterpreted pure function of its arguments."""
import os
import re
import subprocess

import z3
from pycparser import c_parser, c_ast

from . import loader
from .core import (REG, RefV, StructV, Ty, VerifError, PathEnd, Infeasible, STRUCTS, STRUCT_TYPES, parse_type, sort_of,
                   T_INT, T_FLOAT, T_ANY)
from .values import Frame, ReturnSig, BreakSig, ContinueSig

UINT_MAX = 2 ** 32 - 1
SIZE_MAX = 2 ** 64 - 1
_PARSED = {}


def parse_c_file(relpath):
    path = os.path.join(loader.REPO, relpath)
    if path in _PARSED:
        return _PARSED[path]
    if not os.path.isfile(path):
        raise loader.AnchorError("C file %s not found" % path)
    p = subprocess.run(["gcc", "-fpreprocessed", "-dD", "-E", "-P", path], capture_output=True, text=True)
    if p.returncode != 0:
        raise VerifError("gcc comment stripping failed: " + p.stderr[:200])
    text = p.stdout
    hdr = ""
    for inc in re.findall(r'#include\s+"([^"]+)"', text):
        hp = os.path.join(os.path.dirname(path), inc)
        if os.path.isfile(hp):
            q = subprocess.run(["gcc", "-fpreprocessed", "-dD", "-E", "-P", hp], capture_output=True, text=True)
            hdr += q.stdout
    text = hdr + "\n" + text
    text = "\n".join(l for l in text.splitlines() if not l.lstrip().startswith("#"))
    text = "typedef unsigned long size_t;\n" + text
    ast = c_parser.CParser().parse(text, filename=relpath)
    funcs, structs = {}, {}
    for ext in ast.ext:
        if isinstance(ext, c_ast.FuncDef):
            funcs[ext.decl.name] = ext
        elif isinstance(ext, c_ast.Decl) and isinstance(ext.type, c_ast.Struct) and ext.type.decls:
            structs[ext.type.name] = ext.type
    _PARSED[path] = (ast, funcs, structs, text)
    return _PARSED[path]


class CType(object):
    def __init__(self, kind, name=None):
        self.kind, self.name = kind, name   # kind: uint int size_t double voidp ptr struct funcptr void bool

    def __repr__(self):
        return "%s:%s" % (self.kind, self.name) if self.name else self.kind

    @property
    def unsigned(self):
        return self.kind in ("uint", "size_t")


def ctype_of(node):
    """pycparser type node -> CType."""
    if isinstance(node, c_ast.TypeDecl):
        return ctype_of(node.type)
    if isinstance(node, c_ast.IdentifierType):
        names = node.names
        if names == ["uint"] or names == ["unsigned", "int"] or names == ["unsigned"]:
            return CType("uint")
        if names == ["size_t"] or names == ["unsigned", "long"]:
            return CType("size_t")
        if names == ["int"]:
            return CType("int")
        if names == ["double"]:
            return CType("double")
        if names == ["void"]:
            return CType("void")
        raise VerifError("C type %s" % names)
    if isinstance(node, c_ast.Struct):
        return CType("struct", node.name)
    if isinstance(node, c_ast.PtrDecl):
        inner = node.type
        if isinstance(inner, c_ast.FuncDecl):
            return CType("funcptr")
        t = ctype_of(inner)
        if t.kind == "void":
            return CType("voidp")
        if t.kind == "struct":
            return CType("ptr", t.name)
        if t.kind in ("double", "int", "uint"):
            return CType("arr", t.kind)
        raise VerifError("pointer to %r" % t)
    if isinstance(node, c_ast.FuncDecl):
        return ctype_of(node.type)
    raise VerifError("C type node %s" % type(node).__name__)


def ty_of_ctype(ct):
    if ct.kind in ("uint", "int", "size_t"):
        return T_INT
    if ct.kind == "double":
        return T_FLOAT
    if ct.kind in ("voidp", "funcptr"):
        return T_ANY
    if ct.kind == "ptr":
        return Ty("opt", [Ty("ref", name=ct.name)])
    if ct.kind == "struct":
        return STRUCT_TYPES[ct.name]
    raise VerifError("no verification type for C type %r" % ct)


class CFront(object):
    def __init__(self, interp):
        self.it = interp
        self.ctx = interp.ctx
        self.env = {}
        self.types = {}
        self.funcs = {}
        self.loop_ordinal = 0
        self.contract = None
        self.fname = ""

    # ------------------------------------------------------------------ entry
    def run_contract(self, c):
        it, ctx = self.it, self.ctx
        relpath, _, fname = c.qualname.partition(":")
        ast, funcs, structs, _ = parse_c_file(relpath)
        if fname not in funcs:
            raise loader.AnchorError("C function %s not in %s" % (fname, relpath))
        self.funcs, self.contract, self.fname = funcs, c, fname
        fdef = funcs[fname]
        it.prefix = fname + "/"
        env = {}
        params = fdef.decl.type.args.params if fdef.decl.type.args else []
        for p in params:
            if isinstance(p, c_ast.Typename) or p.name is None:
                continue
            ct = ctype_of(p.type)
            self.types[p.name] = ct
            v = it.fresh_param(p.name, ty_of_ctype(ct))
            env[p.name] = v
            ctx.inputs[p.name] = (v, ty_of_ctype(ct))
            if ct.kind == "uint":
                ctx.assume(z3.And(v >= 0, v <= UINT_MAX))
            if ct.kind == "size_t":
                ctx.assume(z3.And(v >= 0, v <= SIZE_MAX))
        # ghost parameters: universally quantified extra inputs of the contract (the caller chooses them)
        for gname, gty in (c.ghost.get("params") or {}).items():
            gv = it.fresh_param(gname, parse_type(gty))
            env[gname] = gv
            ctx.inputs[gname] = (gv, parse_type(gty))
        self.env = env
        mod = loader.load_module("jellyfysh.base.time")
        fr = Frame(mod, None, None, None, env, contract=c, fn=None)
        fr.is_contract_frame = True
        fr.entry_env = dict(env)
        it.frames.append(fr)
        it.add_axioms(c.axioms)
        for r in c.requires + c.assume:
            ctx.assume(it.eval_clause(r))
        entry_heap = dict(ctx.heap)
        it.old_heap_stack.append(entry_heap)
        result = None
        try:
            self.exec_block(fdef.body)
        except ReturnSig as r:
            result = r.value
        post_env = dict(fr.env)
        fr.env = dict(fr.entry_env)
        for k, v in post_env.items():
            if k not in fr.env:
                fr.env[k] = v
        self.env = fr.env
        it.add_axioms(c.ghost.get("late_axioms") or [])
        for i, e in enumerate(c.ensures):
            it.oblige("ensures[%d]:%s" % (i, e[:80]), it.eval_clause(e, {"result": result}), kind="ensures")
        it.frame_obligations(c, entry_heap)
        if c.canary:
            ctx.oblige(it.prefix + "canary:%s" % c.canary[:60], it.eval_clause(c.canary, {"result": result}), "canary", True)
        ctx.oblige(it.prefix + "cover:return", z3.BoolVal(False), "cover", True)

    # ------------------------------------------------------------------ helpers
    def oblige(self, name, goal, kind="safety"):
        self.it.oblige(name, goal, kind=kind)

    def nowrap(self, what, v, ct):
        if ct.unsigned and z3.is_expr(v):
            hi = UINT_MAX if ct.kind == "uint" else SIZE_MAX
            self.oblige("no-unsigned-wrap:%s" % what, z3.And(v >= 0, v <= hi), kind="safety")
        elif ct.unsigned and isinstance(v, int):
            hi = UINT_MAX if ct.kind == "uint" else SIZE_MAX
            if not (0 <= v <= hi):
                self.oblige("no-unsigned-wrap:%s" % what, z3.BoolVal(False), kind="safety")
        return v

    def truth(self, v, ct):
        it = self.it
        if isinstance(v, bool) or (z3.is_expr(v) and v.sort() == z3.BoolSort()):
            return v
        return it.as_bool_term(v)

    def src(self, node):
        from pycparser import c_generator
        return c_generator.CGenerator().visit(node)

    # ------------------------------------------------------------------ expressions -> (value, CType)
    def ev(self, n):
        m = getattr(self, "e_" + type(n).__name__, None)
        if m is None:
            raise VerifError("C expression %s unsupported" % type(n).__name__)
        return m(n)

    def e_Constant(self, n):
        if n.type == "int" or n.type == "unsigned int":
            txt = n.value.lower().rstrip("ul")
            return int(txt, 0), CType("uint" if "u" in n.value.lower() else "int")
        if n.type in ("double", "float"):
            return self.ctx.num.const(float(n.value)), CType("double")
        raise VerifError("C constant %s" % n.type)

    def e_ID(self, n):
        if n.name == "NULL":
            return None, CType("voidp")
        if n.name not in self.env:
            raise VerifError("C identifier %s" % n.name)
        return self.env[n.name], self.types[n.name]

    def e_Cast(self, n):
        ct = ctype_of(n.to_type.type)
        v, _ = self.ev(n.expr)
        return v, ct

    def e_StructRef(self, n):
        base, bt = self.ev(n.name)
        f = n.field.name
        if bt.kind == "ptr":
            self.oblige("no-null-deref:%s" % self.src(n.name), base.term != 0)
            fty = self.it.field_type_for(RefV(base.term, Ty("ref", name=bt.name)), f)
            if fty is None:
                raise VerifError("C struct field %s.%s undeclared in sidecar" % (bt.name, f))
            v = self.ctx.read_field(base, f, fty)
            return v, self.field_ctype(bt.name, f)
        if bt.kind == "struct":
            return base[base.field_index(f)], self.field_ctype(bt.name, f)
        raise VerifError("C member access on %r" % bt)

    def field_ctype(self, sname, f):
        for relpath in [self.contract.qualname.partition(":")[0]]:
            _, _, structs, _ = parse_c_file(relpath)
            if sname in structs:
                for d in structs[sname].decls:
                    if d.name == f:
                        t = d.type
                        if isinstance(t, c_ast.PtrDecl) and isinstance(t.type, c_ast.TypeDecl) and \
                                isinstance(t.type.type, c_ast.Struct):
                            return CType("structarr", t.type.type.name)
                        return ctype_of(t)
        raise VerifError("C field %s.%s" % (sname, f))

    def e_ArrayRef(self, n):
        base, bt = self.ev(n.name)
        idx, it_ = self.ev(n.subscript)
        if bt.kind != "structarr":
            raise VerifError("C array access on %r" % bt)
        lst = RefV(base.term, Ty("list", [STRUCT_TYPES[bt.name]]))
        self.oblige("no-null-deref:%s" % self.src(n.name), base.term != 0)
        I = self.it.Z(idx)
        self.oblige("in-bounds:%s" % self.src(n), z3.And(0 <= I, I < self.ctx.list_len(lst)))
        return self.ctx.list_get(lst, I), CType("struct", bt.name)

    def e_UnaryOp(self, n):
        op = n.op
        if op in ("p++", "p--", "++", "--"):
            old, ct = self.ev(n.expr)
            new = self.it.arith("+" if "+" in op else "-", old, 1, False)
            self.nowrap(self.src(n), new, ct)
            self.assign(n.expr, new, ct)
            return (old if op.startswith("p") else new), ct
        if op == "sizeof":
            name = "sizeof_" + re.sub(r"\W+", "_", self.src(n.expr)).strip("_")
            k = z3.Function("%s$%s" % (name, self.ctx.num.name), z3.IntSort())()
            self.ctx.assume(z3.And(k >= 1, k <= 64))
            return k, CType("size_t")
        v, ct = self.ev(n.expr)
        if op == "!":
            return self.it.neg(self.truth(v, ct)), CType("bool")
        if op == "-":
            if isinstance(v, int):
                return -v, CType("int") if not ct.kind == "double" else ct
            if ct.kind == "double":
                return self.ctx.num.neg(self.ctx.to_float(v)), ct
            return -self.it.Z(v), CType("int")
        raise VerifError("C unary %s" % op)

    def e_BinaryOp(self, n):
        op = n.op
        it = self.it
        if op in ("&&", "||"):
            a, at = self.ev(n.left)
            ta = self.truth(a, at)
            d = ta if isinstance(ta, bool) else self.ctx.branch(ta)
            if op == "&&":
                if not d:
                    return False, CType("bool")
                b, bt = self.ev(n.right)
                return self.truth(b, bt), CType("bool")
            if d:
                return True, CType("bool")
            b, bt = self.ev(n.right)
            return self.truth(b, bt), CType("bool")
        a, at = self.ev(n.left)
        b, bt = self.ev(n.right)
        if op in ("<", "<=", ">", ">=", "==", "!="):
            if at.kind in ("ptr", "voidp", "structarr") or bt.kind in ("ptr", "voidp", "structarr"):
                r = it.identical(a, b)
                return (r if op == "==" else it.neg(r)), CType("bool")
            if at.kind == "double" or bt.kind == "double":
                a, b = self.ctx.to_float(a), self.ctx.to_float(b)
            return it.compare(op, a, b, True), CType("bool")
        rt = at
        if at.kind == "double" or bt.kind == "double":
            rt = CType("double")
        elif at.kind == "size_t" or bt.kind == "size_t":
            rt = CType("size_t")
        elif at.kind == "uint" or bt.kind == "uint":
            rt = CType("uint")
        if op in ("+", "-", "*"):
            if rt.kind == "double":
                r = it.arith(op, self.ctx.to_float(a), self.ctx.to_float(b), True)
            else:
                r = it.arith(op, a, b, True)
                self.nowrap(self.src(n), r, rt)
            return r, rt
        if op == "/":
            if rt.kind == "double":
                bz = z3.simplify(self.ctx.to_float(b))
                az = z3.simplify(self.ctx.to_float(a))
                if z3.is_rational_value(bz) and bz.numerator_as_long() == 0 and z3.is_rational_value(az):
                    # IEEE: x / 0.0 = +-inf (constant folding of the sentinel "-1.0 / 0.0")
                    neg = az.numerator_as_long() < 0
                    return self.ctx.num.const(float("-inf") if neg else float("inf")), rt
                return it.arith("/", az, bz, True), rt
            self.oblige("no-division-by-zero:%s" % self.src(n), it.Z(b) != 0)
            # C integer division truncates; operands are proved non-negative by the no-wrap obligations
            return it.arith("//", a, b, True), rt
        if op in (">>", "<<"):
            if not isinstance(b, int):
                raise VerifError("C shift by non-constant")
            r = it.arith(op, a, b, True)
            if op == "<<":
                self.nowrap(self.src(n), r, rt)
            return r, rt
        raise VerifError("C binary %s" % op)

    def e_TernaryOp(self, n):
        c, ct = self.ev(n.cond)
        t = self.truth(c, ct)
        d = t if isinstance(t, bool) else self.ctx.branch(t)
        return self.ev(n.iftrue if d else n.iffalse)

    def e_CompoundLiteral(self, n):
        ct = ctype_of(n.type.type)
        if ct.kind != "struct":
            raise VerifError("C compound literal of %r" % ct)
        return self.struct_from_list(ct.name, n.init), ct

    def struct_from_list(self, sname, init):
        fields = STRUCTS[sname]
        sty = STRUCT_TYPES[sname]
        vals = []
        for i, f in enumerate(fields):
            if i < len(init.exprs):
                v, vt = self.ev(init.exprs[i])
                fct = self.field_ctype_safe(sname, f)
                v = self.convert(v, vt, fct)
            else:
                v = self.ctx.fresh("ghost$" + f, sort_of(sty.args[i], self.ctx.num))   # ghost / unspecified field
            vals.append(v)
        return StructV(vals, sty)

    def field_ctype_safe(self, sname, f):
        try:
            return self.field_ctype(sname, f)
        except VerifError:
            return CType("int")

    def convert(self, v, src, dst):
        """Implicit C conversion of a value to the type of the object it is stored into."""
        if dst is None:
            return v
        if dst.kind == "double":
            return self.ctx.to_float(v)
        if dst.unsigned and isinstance(v, int) and v < 0:
            return v % (UINT_MAX + 1 if dst.kind == "uint" else SIZE_MAX + 1)   # constant conversion: defined wrap
        if dst.kind == "ptr" and v is None:
            return RefV(z3.IntVal(0), Ty("opt", [Ty("ref", name=dst.name)]))
        if dst.kind in ("voidp", "structarr") and v is None:
            return None
        return v

    def e_FuncCall(self, n):
        name = n.name.name if isinstance(n.name, c_ast.ID) else None
        args = [self.ev(a) for a in (n.args.exprs if n.args else [])]
        ctx, it = self.ctx, self.it
        if name in self.types and self.types[name].kind == "funcptr":
            fn = z3.Function("call_%s$%s" % (name, ctx.num.name), *([z3.IntSort()] * (len(args) + 1)))
            r = fn(*[it.Z(ctx.unwrap(a, T_ANY)) for a, _ in args])
            return r, CType("int")
        if name in ("sqrt", "pow", "fabs", "floor", "fmod"):
            num = ctx.num
            vals = [ctx.to_float(a) for a, _ in args]
            if name == "sqrt":
                self.oblige("sqrt-of-non-negative:%s" % self.src(n), num.ge(vals[0], num.const(0.0)))
                return it.sqrt_value(vals[0], False), CType("double")
            if name == "pow":
                return it.float_pow(vals[0], vals[1], False), CType("double")
            if name == "fabs":
                return num.abs(vals[0]), CType("double")
            if name == "floor":
                return num.floor(vals[0]), CType("double")
            if name == "fmod":
                if num.name != "R":
                    raise VerifError("fmod outside model R")
                self.oblige("fmod-operands:%s" % self.src(n), z3.And(vals[0] >= 0, vals[1] > 0))
                q = ctx.fresh("fmodq", z3.IntSort())
                m = ctx.fresh("fmodm", z3.RealSort())
                ctx.assume(z3.And(vals[0] == z3.ToReal(q) * vals[1] + m, 0 <= m, m < vals[1], q >= 0))
                return m, CType("double")
        if name == "realloc":
            return self.do_realloc(n, args), CType("structarr", self._realloc_struct)
        if name == "calloc":
            return self.do_calloc(n, args)
        if name == "free":
            return None, CType("void")
        if name in self.funcs:
            return self.call_c_contract(name, args)
        raise VerifError("C call of %s" % name)

    def do_realloc(self, n, args):
        ctx, it = self.ctx, self.it
        size_node = n.args.exprs[1]
        if not (isinstance(size_node, c_ast.BinaryOp) and size_node.op == "*"):
            raise VerifError("realloc size is not count * sizeof")
        cnt_node, so = size_node.left, size_node.right
        if isinstance(cnt_node, c_ast.UnaryOp) and cnt_node.op == "sizeof":
            cnt_node, so = so, cnt_node
        m = re.search(r"struct\s+(\w+)", self.src(so))
        if not m:
            raise VerifError("realloc element type")
        sname = m.group(1)
        self._realloc_struct = sname
        count, cct = self.ev(cnt_node)
        # the byte count must not wrap in size_t: count * sizeof(struct) with sizeof <= 64 assumed (listed)
        self.oblige("no-size_t-wrap:realloc-bytes", it.Z(count) * 64 <= SIZE_MAX)
        old, _ = args[0]
        fails = ctx.fresh("realloc_fails", z3.BoolSort())
        ctx.draws.append(("realloc_fails", fails))
        if ctx.branch(fails):
            return None
        sty = STRUCT_TYPES[sname]
        new = ctx.alloc(Ty("list", [sty]))
        ctx.set_list_len(new, it.Z(count))
        inner = ctx.fresh("realloc_block", z3.ArraySort(z3.IntSort(), sort_of(sty, ctx.num)))
        if old is not None:
            oldl = RefV(old.term, Ty("list", [sty]))
            i = z3.Int("i!realloc")
            oldn = ctx.list_len(oldl)
            ctx.assume(z3.Implies(old.term != 0, z3.ForAll([i], z3.Implies(
                z3.And(0 <= i, i < oldn, i < it.Z(count)), z3.Select(inner, i) == z3.Select(ctx.list_arr(oldl, sty), i)))))
        ctx.set_list_arr(new, sty, inner)
        return RefV(new.term, Ty("opt", [Ty("list", [sty])]))

    def do_calloc(self, n, args):
        ctx = self.ctx
        m = re.search(r"struct\s+(\w+)", self.src(n.args.exprs[1]))
        if not m:
            raise VerifError("calloc element type")
        sname = m.group(1)
        fails = ctx.fresh("calloc_fails", z3.BoolSort())
        if ctx.branch(fails):
            return RefV(z3.IntVal(0), Ty("opt", [Ty("ref", name=sname)])), CType("ptr", sname)
        ref = ctx.alloc(Ty("ref", name=sname))
        for (cn, f), fty in list(REG.fields.items()):
            if cn == sname:
                zero = None if fty.reflike else (self.ctx.num.const(0.0) if fty.kind == "float" else 0)
                ctx.write_field(ref, f, fty, zero)
        return RefV(ref.term, Ty("opt", [Ty("ref", name=sname)])), CType("ptr", sname)

    def call_c_contract(self, name, args):
        it, ctx = self.it, self.ctx
        relpath = self.contract.qualname.partition(":")[0]
        key = "%s:%s" % (relpath, name)
        c = None
        for cc in REG.contracts.values():
            if cc.qualname == key and cc.model == ctx.num.name:
                c = cc
                break
        fdef = self.funcs[name]
        params = [p for p in (fdef.decl.type.args.params if fdef.decl.type.args else []) if getattr(p, "name", None)]
        if c is None:
            raise VerifError("C callee %s has no contract" % name)
        env = {}
        for p, (v, vt) in zip(params, args):
            env[p.name] = self.convert(v, vt, ctype_of(p.type))
        chosen = ((self.contract.ghost.get("args") or {}).get(name) or {})
        for gname, gty in (c.ghost.get("params") or {}).items():
            if gname in chosen:
                import ast as pyast
                env[gname] = it.ev(pyast.parse(chosen[gname], mode="eval").body, True)
            else:
                env[gname] = it.fresh_param("ghost$" + gname, parse_type(gty))
        mod = loader.load_module("jellyfysh.base.time")
        fr = Frame(mod, None, None, None, env)
        ctx.used_contracts.add(c.key)
        it.frames.append(fr)
        try:
            for i, r in enumerate(c.requires):
                it.oblige("call:%s/requires[%d]:%s" % (name, i, r[:60]), it.eval_clause(r), kind="call-pre")
            old_heap = dict(ctx.heap)
            it.havoc_modifies(c.modifies)
            old_wm = ctx.bump_wm_unknown()
            rct = ctype_of(fdef.decl.type.type)
            result = None
            if rct.kind != "void":
                result = it.fresh_result_value(ty_of_ctype(rct))
            it.old_heap_stack.append(old_heap)
            it.fresh_base_stack.append(old_wm)
            fr.entry_env = dict(env)
            try:
                for e in c.ensures:
                    ctx.assume(it.eval_clause(e, {"result": result}))
            finally:
                it.old_heap_stack.pop()
                it.fresh_base_stack.pop()
            return result, rct
        finally:
            it.frames.pop()

    def call_from_python(self, relpath, fname, pyargs):
        """A cffi call from Python code: argument conversion (OverflowError for ints that do not fit ``uint``), then
        the C function's contract."""
        from .values import RaiseSig, ExcV
        it, ctx = self.it, self.ctx
        ast, funcs, structs, _ = parse_c_file(relpath)
        if fname not in funcs:
            raise loader.AnchorError("C function %s not in %s" % (fname, relpath))
        self.funcs = funcs
        self.fname = fname

        class _C(object):
            qualname = relpath + ":"
            ghost = (it.root_contract.ghost if it.root_contract is not None else {})
        self.contract = _C()
        fdef = funcs[fname]
        params = [p for p in (fdef.decl.type.args.params if fdef.decl.type.args else []) if getattr(p, "name", None)]
        args = []
        for p, v in zip(params, pyargs):
            ct = ctype_of(p.type)
            if ct.kind == "uint":
                V = it.Z(v)
                fits = z3.And(V >= 0, V <= UINT_MAX)
                d = ctx.branch(fits) if z3.is_expr(V) else (0 <= v <= UINT_MAX)
                if not d:
                    raise RaiseSig(ExcV("OverflowError"))
            if ct.kind == "double":
                v = ctx.to_float(v)
            args.append((v, ct))
        key = "%s:%s" % (relpath, fname)
        if not any(c.qualname == key for c in REG.contracts.values()):
            # no contract: a pure function of unknown value (e.g. estimated_size)
            rct = ctype_of(fdef.decl.type.type)
            return None if rct.kind == "void" else it.fresh_result_value(ty_of_ctype(rct))
        r, rct = self.call_c_contract(fname, args)
        return r

    # ------------------------------------------------------------------ assignment
    def assign(self, target, v, vt):
        ctx, it = self.ctx, self.it
        if isinstance(target, c_ast.ID):
            ct = self.types[target.name]
            self.env[target.name] = self.convert(v, vt, ct)
            return
        if isinstance(target, c_ast.StructRef):
            base, bt = self.ev(target.name)
            f = target.field.name
            if bt.kind == "ptr":
                self.oblige("no-null-deref:%s" % self.src(target.name), base.term != 0)
                fct = self.field_ctype(bt.name, f)
                fty = it.field_type_for(RefV(base.term, Ty("ref", name=bt.name)), f)
                ctx.write_field(base, f, fty, self.convert(v, vt, fct))
                return
            if bt.kind == "struct":
                # write one member of an array element:  p->arr[i].f = v
                inner = target.name
                if not isinstance(inner, c_ast.ArrayRef):
                    raise VerifError("C member store into a struct that is not an array element")
                cur, _ = self.ev(inner)
                fct = self.field_ctype(bt.name, f)
                items = list(cur)
                items[cur.field_index(f)] = self.convert(v, vt, fct)
                self.assign(inner, StructV(items, cur.ty), bt)
                return
        if isinstance(target, c_ast.ArrayRef):
            base, bt = self.ev(target.name)
            idx, _ = self.ev(target.subscript)
            lst = RefV(base.term, Ty("list", [STRUCT_TYPES[bt.name]]))
            self.oblige("no-null-deref:%s" % self.src(target.name), base.term != 0)
            I = it.Z(idx)
            self.oblige("in-bounds:%s" % self.src(target), z3.And(0 <= I, I < ctx.list_len(lst)))
            ctx.list_set(lst, I, v)
            return
        raise VerifError("C assignment target %s" % type(target).__name__)

    # ------------------------------------------------------------------ statements
    def exec_block(self, node):
        if node is None:
            return
        items = node.block_items if isinstance(node, c_ast.Compound) else [node]
        for s in items or []:
            self.exec_stmt(s)

    def exec_stmt(self, s):
        if hasattr(s, "coord") and s.coord:
            self.it.cur_line = s.coord.line
        m = getattr(self, "s_" + type(s).__name__, None)
        if m is None:
            # expression statement
            self.ev(s)
            self.after_stmt(s)
            return
        m(s)
        self.after_stmt(s)

    def after_stmt(self, s):
        """ghost statements of the sidecar attached after a statement (matched by its regenerated source text)."""
        g = self.contract.ghost.get("after") if self.contract else None
        if not g:
            return
        try:
            txt = re.sub(r"\s+", " ", self.src(s)).strip().rstrip(";")
        except Exception:
            return
        if txt in g:
            self.ghost_used.add(txt)
            for stmt in g[txt]:
                self.run_ghost(stmt)

    ghost_used = set()

    def run_ghost(self, text):
        src = "typedef unsigned long size_t; void ghost() { %s; }" % text
        # reuse declarations: parse in the context of the file's typedefs/structs
        relpath = self.contract.qualname.partition(":")[0]
        _, _, _, ftext = parse_c_file(relpath)
        decls = ftext.split("struct Heap {")[0] if "struct Heap {" in ftext else ""
        try:
            ast = c_parser.CParser().parse(decls + "\nvoid ghost$() { %s; }" % text.replace("$", "_"))
        except Exception as e:
            raise VerifError("ghost statement %r does not parse: %s" % (text, e))
        self.exec_block(ast.ext[-1].body)

    def s_Compound(self, s):
        self.exec_block(s)

    def s_Decl(self, s):
        ct = ctype_of(s.type)
        self.types[s.name] = ct
        if s.init is not None:
            v, vt = self.ev(s.init)
            self.env[s.name] = self.convert(v, vt, ct)
        else:
            self.env[s.name] = None   # uninitialised: reading it is an error caught as "None" arithmetic

    def s_Assignment(self, s):
        if s.op == "=":
            if isinstance(s.rvalue, c_ast.InitList):
                raise VerifError("C initializer list assignment")
            v, vt = self.ev(s.rvalue)
            self.assign(s.lvalue, v, vt)
            return
        cur, ct = self.ev(s.lvalue)
        v, vt = self.ev(s.rvalue)
        r = self.it.arith(s.op[0], cur, v, True)
        if ct.kind != "double":
            self.nowrap(self.src(s), r, ct)
        self.assign(s.lvalue, r, ct)

    def s_If(self, s):
        c, ct = self.ev(s.cond)
        t = self.truth(c, ct)
        d = t if isinstance(t, bool) else self.ctx.branch(t)
        if d:
            self.exec_block(s.iftrue)
        elif s.iffalse is not None:
            self.exec_block(s.iffalse)

    def s_Return(self, s):
        if s.expr is None:
            raise ReturnSig(None)
        v, vt = self.ev(s.expr)
        fdef = self.funcs[self.fname]
        rct = ctype_of(fdef.decl.type.type)
        raise ReturnSig(self.convert(v, vt, rct))

    def s_Break(self, s):
        raise BreakSig()

    def s_Continue(self, s):
        raise ContinueSig()

    def s_EmptyStatement(self, s):
        pass

    def s_While(self, s):
        self.cut_loop(s, None, s.cond, None, s.stmt)

    def s_For(self, s):
        if s.init is not None:
            if isinstance(s.init, c_ast.DeclList):
                for d in s.init.decls:
                    self.s_Decl(d)
            else:
                self.exec_stmt(s.init)
        self.cut_loop(s, s.init, s.cond, s.next, s.stmt)

    def assigned(self, node):
        out = set()

        class V(c_ast.NodeVisitor):
            def visit_Assignment(v, n):
                if isinstance(n.lvalue, c_ast.ID):
                    out.add(n.lvalue.name)
                v.generic_visit(n)

            def visit_UnaryOp(v, n):
                if n.op in ("p++", "p--", "++", "--") and isinstance(n.expr, c_ast.ID):
                    out.add(n.expr.name)
                v.generic_visit(n)
        V().visit(node)
        return out

    def cut_loop(self, s, init, cond, nxt, body):
        it, ctx = self.it, self.ctx
        k = self.loop_ordinal
        self.loop_ordinal += 1
        spec = self.contract.loops.get(k)
        if spec is None:
            raise VerifError("C loop %d of %s needs an invariant" % (k, self.fname))
        base = "%s/loop%d" % (self.fname, k)
        import ast as pyast
        inv_nodes = [pyast.parse(t, mode="eval").body for t in spec.invariant]

        def check(tag):
            for t, node in zip(spec.invariant, inv_nodes):
                it.oblige("%s/%s:%s" % (base, tag, t[:70]), it.as_bool_term(it.ev(node, True)), kind="invariant")
        check("inv-entry")
        choice = ctx.choose(2)
        names = self.assigned(body)
        if nxt is not None:
            names |= self.assigned(nxt)
        for name in sorted(names):
            if name in self.env and self.env[name] is not None:
                ct = self.types[name]
                v = it.havoc_value(name, self.env[name])
                self.env[name] = v
                if ct.kind == "uint":
                    ctx.assume(z3.And(v >= 0, v <= UINT_MAX))
            elif name in self.env:
                ct = self.types[name]
                v = ctx.fresh_of_type("hv$" + name, ty_of_ctype(ct))
                self.env[name] = v
                if ct.kind == "uint":
                    ctx.assume(z3.And(v >= 0, v <= UINT_MAX))
        it.havoc_modifies(spec.modifies)
        for node in inv_nodes:
            ctx.assume(it.as_bool_term(it.ev(node, True)))
        variant0 = it.ev(pyast.parse(spec.variant, mode="eval").body, True) if spec.variant else None

        def guard():
            if cond is None:
                return True
            c, ct = self.ev(cond)
            return self.truth(c, ct)
        if choice == 0:
            g = guard()
            if isinstance(g, bool):
                if not g:
                    raise Infeasible()
            else:
                ctx.assume(g)
            try:
                self.exec_block(body)
            except ContinueSig:
                pass
            except BreakSig:
                return
            if nxt is not None:
                self.exec_stmt(nxt)
            check("inv-preserved")
            if variant0 is not None:
                v1 = it.ev(pyast.parse(spec.variant, mode="eval").body, True)
                it.oblige("%s/variant-decreases" % base, z3.And(it.Z(v1) < it.Z(variant0), it.Z(variant0) >= 0),
                          kind="variant")
            raise PathEnd()
        g = guard()
        if isinstance(g, bool):
            if g:
                raise Infeasible()
        else:
            ctx.assume(z3.Not(g))
