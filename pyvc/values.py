"""Callable / structural values of the symbolic interpreter and control-flow signals."""


class FuncV(object):
    def __init__(self, module, owner, node, self_val=None, dyn_cls=None):
        self.module, self.owner, self.node, self.self_val, self.dyn_cls = module, owner, node, self_val, dyn_cls

    @property
    def qualname(self):
        if self.owner is not None:
            return "%s:%s.%s" % (self.owner.module.name, self.owner.name, self.node.name)
        return "%s:%s" % (self.module.name, self.node.name)

    def dyn_qualname(self):
        # a contract registered under the DYNAMIC class applies only when that class dispatches to this very function
        # (super().__init__() reached from Sub.__init__ is Base.__init__, not Sub.__init__ again)
        if self.dyn_cls is not None and self.dyn_cls.find_method(self.node.name)[1] is self.node:
            return "%s:%s.%s" % (self.dyn_cls.module.name, self.dyn_cls.name, self.node.name)
        return self.qualname


class BuiltinV(object):
    def __init__(self, name, recv=None):
        self.name, self.recv = name, recv

    def __repr__(self):
        return "BuiltinV(%s)" % self.name


class ClassV(object):
    def __init__(self, info):
        self.info = info


class ModuleV(object):
    def __init__(self, name):
        self.name = name


class SuperV(object):
    def __init__(self, self_val, owner, dyn_cls):
        self.self_val, self.owner, self.dyn_cls = self_val, owner, dyn_cls


class LambdaV(object):
    def __init__(self, node, env, frame):
        self.node, self.env, self.frame = node, env, frame


class ExcV(object):
    """An exception instance (only its class name matters)."""
    def __init__(self, name, args=()):
        self.name, self.args = name, args


class RangeV(object):
    def __init__(self, lo, hi, step=1):
        self.lo, self.hi, self.step = lo, hi, step


class EnumV(object):
    def __init__(self, inner, start=0):
        self.inner, self.start = inner, start


class ZipV(object):
    def __init__(self, parts):
        self.parts = parts


class GenV(object):
    """A generator expression, not yet consumed: (node, env, frame)."""
    def __init__(self, node, env, frame):
        self.node, self.env, self.frame = node, env, frame


class Frame(object):
    def __init__(self, module, owner, dyn_cls, self_val, env, contract=None, fn=None):
        self.module, self.owner, self.dyn_cls, self.self_val, self.env = module, owner, dyn_cls, self_val, env
        self.contract = contract
        self.fn = fn
        self.loop_ordinal = 0
        self.entry_env = None
        self.leading = True
        self.is_contract_frame = False
        self.global_names = set()


class ReturnSig(Exception):
    def __init__(self, value):
        self.value = value


class RaiseSig(Exception):
    def __init__(self, exc):
        self.exc = exc


class BreakSig(Exception):
    pass


class ContinueSig(Exception):
    pass


class KwargsV(dict):
    """The value of a ``**kwargs`` parameter: a concrete mapping of keyword names to values."""
