"""Types, values, numeric models and the per-path verification context."""
import fractions
import math
import re

import z3


class VerifError(Exception):
    """The function is outside the supported subset ("out of reach"); never a property verdict."""


class PathEnd(Exception):
    """The current symbolic path stops here (loop cut, infeasible branch)."""


class Infeasible(PathEnd):
    pass


# --------------------------------------------------------------------------------------------- types
class Ty(object):
    __slots__ = ("kind", "args", "name")

    def __init__(self, kind, args=(), name=None):
        self.kind, self.args, self.name = kind, tuple(args), name

    def __repr__(self):
        if self.kind == "ref":
            return self.name
        if self.args:
            return "%s[%s]" % (self.kind, ",".join(map(repr, self.args)))
        return self.kind

    def __eq__(self, other):
        return isinstance(other, Ty) and repr(self) == repr(other)

    def __hash__(self):
        return hash(repr(self))

    @property
    def reflike(self):
        return self.kind in ("ref", "list", "dict", "set") or (self.kind == "opt" and self.args[0].reflike)

    @property
    def base(self):
        return self.args[0] if self.kind == "opt" else self


_PRIMS = {"int", "float", "bool", "any", "str", "none"}
_ALIASES = {"Any": "any", "Sequence": "list", "MutableSequence": "list", "List": "list", "Tuple": "tuple",
            "Optional": "opt", "Dict": "dict", "Mapping": "dict", "MutableMapping": "dict", "Set": "set",
            "Iterable": "list", "None": "none"}


def parse_type(text):
    text = text.strip().strip("'\"")
    text = text.replace("typing.", "")
    m = re.match(r"^([A-Za-z_][\w.]*)\s*(\[(.*)\])?$", text, re.S)
    if not m:
        raise VerifError("cannot parse type %r" % text)
    head, inner = m.group(1), m.group(3)
    head = _ALIASES.get(head, head)
    if inner is None:
        if head in _PRIMS:
            return Ty(head)
        if head in ("list", "tuple", "dict", "set"):
            return Ty(head, [Ty("any")] if head != "dict" else [Ty("any"), Ty("any")])
        if head in STRUCT_TYPES:
            return STRUCT_TYPES[head]
        return Ty("ref", name=head.split(".")[-1])
    parts, depth, cur = [], 0, ""
    for ch in inner:
        if ch == "[":
            depth += 1
        elif ch == "]":
            depth -= 1
        if ch == "," and depth == 0:
            parts.append(cur)
            cur = ""
        else:
            cur += ch
    if cur.strip():
        parts.append(cur)
    return Ty(head, [parse_type(p) for p in parts])


T_INT, T_FLOAT, T_BOOL, T_ANY = Ty("int"), Ty("float"), Ty("bool"), Ty("any")


# -------------------------------------------------------------------------------------------- values
class StructV(tuple):
    """A by-value struct (C struct / named tuple): a Python tuple of field values that remembers its type."""
    def __new__(cls, items, ty):
        o = tuple.__new__(cls, items)
        o.ty = ty
        return o

    def field_index(self, name):
        return STRUCTS[self.ty.name].index(name)


STRUCTS = {}      # struct name -> ordered field names
STRUCT_TYPES = {}  # struct name -> Ty


def declare_struct(name, fields):
    """fields: ordered list of (field name, type string)."""
    STRUCTS[name] = [f for f, _ in fields]
    STRUCT_TYPES[name] = Ty("tuple", [parse_type(t) for _, t in fields], name=name)
    return STRUCT_TYPES[name]


class ArrV(object):
    """A bare mathematical array (bound variable of an axiom / lemma, or the contents of a list): a[i] is a select."""
    __slots__ = ("term", "ety")

    def __init__(self, term, ety):
        self.term, self.ety = term, ety


class RefV(object):
    """A reference (object, list, dict); term is a z3 Int, 0 encodes None."""
    __slots__ = ("term", "ty")

    def __init__(self, term, ty):
        self.term, self.ty = term, ty

    def __repr__(self):
        return "RefV(%s:%r)" % (self.term, self.ty)


# ------------------------------------------------------------------------------------ numeric models
DBL_MAX = fractions.Fraction(2) ** 1024 - fractions.Fraction(2) ** 971
R_INF = fractions.Fraction(2) ** 1100


class RealModel(object):
    """Model R: floats are mathematical reals.  +-inf are the constants +-2^1100 (larger than every finite
    double); arithmetic on infinities is NOT modelled - contracts proved in R require finite operands."""
    name = "R"
    sort = z3.RealSort()

    def const(self, x):
        if isinstance(x, float):
            if math.isinf(x):
                return z3.RealVal(str(R_INF if x > 0 else -R_INF))
            if math.isnan(x):
                raise VerifError("NaN constant in model R")
            fr = fractions.Fraction(x)
            return z3.RealVal("%d/%d" % (fr.numerator, fr.denominator))
        if isinstance(x, fractions.Fraction):
            return z3.RealVal("%d/%d" % (x.numerator, x.denominator))
        return z3.RealVal(x)

    def from_int(self, t):
        return z3.ToReal(t)

    def add(self, a, b): return a + b
    def sub(self, a, b): return a - b
    def mul(self, a, b): return a * b
    def div(self, a, b): return a / b
    def neg(self, a): return -a
    def lt(self, a, b): return a < b
    def le(self, a, b): return a <= b
    def gt(self, a, b): return a > b
    def ge(self, a, b): return a >= b
    def eq(self, a, b): return a == b
    def ne(self, a, b): return a != b
    def abs(self, a): return z3.If(a >= 0, a, -a)
    def isinf(self, a): return z3.Or(a >= self.const(R_INF), a <= self.const(-R_INF))
    def isnan(self, a): return z3.BoolVal(False)
    def is_int(self, a): return z3.IsInt(a)
    def trunc_to_int(self, a): return z3.If(a >= 0, z3.ToInt(a), -z3.ToInt(-a))
    def floor(self, a): return z3.ToReal(z3.ToInt(a))
    def typing_assumption(self, a):
        # no magnitude bound: giant constants cripple the nonlinear solver; model R is "floats as reals"
        return z3.BoolVal(True)

    def to_py(self, v):
        v = z3.simplify(v)
        if z3.is_rational_value(v):
            fr = fractions.Fraction(v.numerator_as_long(), v.denominator_as_long())
            if fr >= R_INF:
                return math.inf
            if fr <= -R_INF:
                return -math.inf
            return float(fr)
        if z3.is_algebraic_value(v):
            return float(v.approx(20).as_fraction())
        raise VerifError("cannot concretise %s" % v)


RNE = z3.RNE()
F64 = z3.Float64()


class FloatModel(object):
    """Model F: IEEE-754 binary64, bit precise, round-to-nearest-even (what CPython floats are)."""
    name = "F"
    sort = F64

    def const(self, x):
        if isinstance(x, fractions.Fraction):
            x = float(x)
        if isinstance(x, int):
            x = float(x)
        if math.isinf(x):
            return z3.fpPlusInfinity(F64) if x > 0 else z3.fpMinusInfinity(F64)
        if math.isnan(x):
            return z3.fpNaN(F64)
        return z3.FPVal(x, F64)

    def from_int(self, t):
        return z3.fpToFP(RNE, z3.ToReal(t), F64)

    def add(self, a, b): return z3.fpAdd(RNE, a, b)
    def sub(self, a, b): return z3.fpSub(RNE, a, b)
    def mul(self, a, b): return z3.fpMul(RNE, a, b)
    def div(self, a, b): return z3.fpDiv(RNE, a, b)
    def neg(self, a): return z3.fpNeg(a)
    def lt(self, a, b): return z3.fpLT(a, b)
    def le(self, a, b): return z3.fpLEQ(a, b)
    def gt(self, a, b): return z3.fpGT(a, b)
    def ge(self, a, b): return z3.fpGEQ(a, b)
    def eq(self, a, b): return z3.fpEQ(a, b)
    def ne(self, a, b): return z3.Not(z3.fpEQ(a, b))
    def abs(self, a): return z3.fpAbs(a)
    def isinf(self, a): return z3.fpIsInf(a)
    def isnan(self, a): return z3.fpIsNaN(a)
    def is_int(self, a): return z3.And(z3.Not(z3.fpIsInf(a)), z3.Not(z3.fpIsNaN(a)),
                                       z3.fpEQ(z3.fpRoundToIntegral(z3.RTZ(), a), a))
    def trunc_to_int(self, a): return z3.ToInt(z3.fpToReal(z3.fpRoundToIntegral(z3.RTZ(), a)))
    def floor(self, a): return z3.fpRoundToIntegral(z3.RTN(), a)
    def typing_assumption(self, a): return z3.BoolVal(True)

    def to_py(self, v):
        v = z3.simplify(v)
        if z3.is_fp_value(v):
            if v.isNaN():
                return math.nan
            if v.isInf():
                return -math.inf if v.isNegative() else math.inf
            if v.isZero():
                return -0.0 if v.isNegative() else 0.0
            sign = -1 if v.sign() else 1
            sig = fractions.Fraction(v.significand_as_long(), 2 ** 52) if not v.isSubnormal() else None
            if v.isSubnormal():
                # significand_as_long holds the fraction bits
                return sign * float(fractions.Fraction(v.significand_as_long(), 2 ** 52) * fractions.Fraction(2) ** (-1022))
            e = v.exponent_as_long(biased=False)
            frac = fractions.Fraction(v.significand_as_long(), 2 ** 52) + 1
            return sign * float(frac * fractions.Fraction(2) ** e)
        raise VerifError("cannot concretise %s" % v)


MODELS = {"R": RealModel(), "F": FloatModel()}


# ----------------------------------------------------------------------------------- class registry
class Registry(object):
    """Declared field types (sidecar) and everything else contracts register."""

    def __init__(self):
        self.fields = {}      # (class name, field) -> Ty
        self.any_field = {}   # field -> Ty (last declaration; used when the class is unknown)
        self.contracts = {}   # qualname -> Contract
        self.specs = {}       # name -> (params, expr ast, source)
        self.ufuncs = {}      # name -> (arg type strs, ret type str)
        self.axioms = []      # (name, vars, expr string)
        self.lemmas = []
        self.globals = {}     # (module, name) -> (Ty, [invariant strings])
        self.tuple_sorts = {}
        self.extern_c = {}      # python extension module name -> C source (relative to the repo)
        self.noop_fields = {"_logger"}

    def declare_class(self, cname, fields):
        for f, t in fields.items():
            ty = parse_type(t) if isinstance(t, str) else t
            self.fields[(cname, f)] = ty
            self.any_field[f] = ty

    def field_type(self, cls_names, field):
        for c in cls_names:
            if (c, field) in self.fields:
                return self.fields[(c, field)]
        return None


REG = Registry()

_TUPLE_SORTS = {}


def sort_of(ty, num):
    k = ty.kind
    if k == "int":
        return z3.IntSort()
    if k == "float":
        return num.sort
    if k == "bool":
        return z3.BoolSort()
    if k in ("any", "str", "none", "ref", "list", "dict", "set"):
        return z3.IntSort()
    if k == "opt":
        if ty.args[0].reflike or ty.args[0].kind in ("any", "int"):
            return z3.IntSort()
        raise VerifError("optional of non-reference type %r unsupported" % ty)
    if k == "tuple":
        key = (repr(ty), num.name)
        if key not in _TUPLE_SORTS:
            dt = z3.Datatype("Tup_%s_%s" % (re.sub(r"\W+", "_", repr(ty)), num.name))
            dt.declare("mk", *[("f%d" % i, sort_of(a, num)) for i, a in enumerate(ty.args)])
            _TUPLE_SORTS[key] = dt.create()
        return _TUPLE_SORTS[key]
    raise VerifError("no sort for type %r" % ty)


def sort_key(sort):
    return re.sub(r"\W+", "_", str(sort))


# ----------------------------------------------------------------------------------------- context
class Obligation(object):
    def __init__(self, name, pc, goal, kind, path, expect_fail=False, info=None):
        self.name, self.pc, self.goal, self.kind, self.path = name, list(pc), goal, kind, path
        self.expect_fail = expect_fail
        self.info = info or {}
        self.result = None
        self.seconds = 0.0
        self.backend = None
        self.model = None

    @property
    def full_name(self):
        return "%s@p%d" % (self.name, self.path)

    def to_smt2(self):
        s = z3.Solver()
        for p in self.pc:
            s.add(p)
        s.add(z3.Not(self.goal))
        return s.to_smt2()


class Ctx(object):
    """State of ONE symbolic path: heap, path condition, obligations, decision log."""
    _uid = 0

    def __init__(self, num, log, path_id, explorer):
        self.num = num
        self.log = list(log)
        self.pos = 0
        self.path_id = path_id
        self.explorer = explorer
        self.pc = []
        self.heap = {}
        self.heap0_consts = {}
        self.obligations = []
        self.fresh_n = 0
        self.wm = z3.Int("$wm")
        self.wm_entry = self.wm
        self.alloc_k = 0
        self.draws = []          # symbolic random draws in order: (kind, term)
        self.inputs = {}         # name -> (value, ty) for replay
        self.old_heap_stack = []
        self.inlined = set()
        self.used_contracts = set()
        self.globals_vals = {}
        self.notes = []
        self._isint_done = {}
        self._obliged = set()

    # -- symbols
    def fresh(self, base, sort):
        self.fresh_n += 1
        return z3.Const("%s!%d" % (base, self.fresh_n), sort)

    def fresh_of_type(self, base, ty):
        t = self.fresh(base, sort_of(ty, self.num))
        return self.wrap(t, ty)

    def wrap(self, term, ty):
        if ty.reflike:
            return RefV(term, ty)
        if ty.kind == "tuple":
            s = sort_of(ty, self.num)
            items = [self.wrap(s.accessor(0, i)(term), a) for i, a in enumerate(ty.args)]
            return StructV(items, ty) if ty.name else tuple(items)
        return term

    def unwrap(self, v, ty):
        """Python-level value -> z3 term of sort_of(ty)."""
        k = ty.kind
        if isinstance(v, RefV):
            return v.term
        if v is None:
            return z3.IntVal(0)
        if k == "tuple":
            if isinstance(v, tuple) and len(v) < len(ty.args) and all(a.kind == "opt" for a in ty.args[len(v):]):
                v = tuple(v) + (None,) * (len(ty.args) - len(v))     # shorter tuple: optional trailing slots are None
            if not isinstance(v, tuple) or len(v) != len(ty.args):
                raise VerifError("tuple arity mismatch storing %r as %r" % (v, ty))
            s = sort_of(ty, self.num)
            return s.constructor(0)(*[self.unwrap(x, a) for x, a in zip(v, ty.args)])
        if k == "float":
            return self.to_float(v)
        if k in ("int", "any", "str", "opt"):
            if isinstance(v, bool):
                return z3.IntVal(int(v))
            if isinstance(v, int):
                return z3.IntVal(v)
            if isinstance(v, str):
                return z3.IntVal(self.explorer.intern(v))
            if isinstance(v, tuple):
                return self.explorer.intern_tuple(self, v)
            return v
        if k == "bool":
            if isinstance(v, bool):
                return z3.BoolVal(v)
            return v
        return v

    def to_float(self, v):
        if isinstance(v, bool):
            return self.num.const(float(v))
        if isinstance(v, (int, float, fractions.Fraction)):
            return self.num.const(v)
        if z3.is_expr(v) and v.sort() == z3.IntSort():
            return self.num.from_int(v)
        return v

    # -- path condition
    def assume(self, f):
        if isinstance(f, bool):
            if not f:
                raise Infeasible()
            return
        f = self._skolemize_isint(f)
        f = z3.simplify(f)
        if z3.is_true(f):
            return
        if z3.is_false(f):
            raise Infeasible()
        self.pc.append(f)

    def _skolemize_isint(self, f, pos=True):
        """Replace IsInt(t) in *positive* positions by t == ToReal(k_t), k_t a fresh integer constant (skolemised
        existential; sound for assumptions).  z3's LIRA engine is ineffective on the is_int predicate itself."""
        if self.num.name != "R" or not z3.is_expr(f):
            return f
        if z3.is_quantifier(f) or not z3.is_app(f):
            return f
        k = f.decl().kind()
        if k == z3.Z3_OP_IS_INT:
            if not pos or _has_var(f.arg(0)):
                return f
            t = f.arg(0)
            key = t.get_id()
            if key not in self._isint_done:
                self._isint_done[key] = self.fresh("isint", z3.IntSort())
            return t == z3.ToReal(self._isint_done[key])
        if k == z3.Z3_OP_AND:
            return z3.And(*[self._skolemize_isint(c, pos) for c in f.children()])
        if k == z3.Z3_OP_OR:
            return z3.Or(*[self._skolemize_isint(c, pos) for c in f.children()])
        if k == z3.Z3_OP_NOT:
            return z3.Not(self._skolemize_isint(f.arg(0), not pos))
        if k == z3.Z3_OP_IMPLIES:
            return z3.Implies(self._skolemize_isint(f.arg(0), not pos), self._skolemize_isint(f.arg(1), pos))
        return f

    def oblige(self, name, goal, kind="assert", expect_fail=False, info=None):
        if isinstance(goal, bool):
            goal = z3.BoolVal(goal)
        if kind == "safety" and not expect_fail:
            # the same safety condition on the same path was already obliged (and is assumed since): skip duplicates
            gid = z3.simplify(goal).get_id()
            if gid in self._obliged:
                return
            self._obliged.add(gid)
        ob = Obligation(name, self.pc, goal, kind, self.path_id, expect_fail, info)
        self.obligations.append(ob)
        if not expect_fail and kind not in ("ensures", "frame", "raises", "lemma"):
            # after checking, the asserted fact may be used on the rest of the path
            try:
                self.assume(goal)
            except Infeasible:
                # goal is literally False: the obligation says "this point is unreachable"
                raise

    def feasible(self, extra):
        # quantified hypotheses are left out (the check only prunes paths; a weaker pc explores a superset)
        s = z3.Solver()
        s.set("timeout", self.explorer.feas_timeout_ms)
        for p in self.pc:
            if not _has_quantifier(p):
                s.add(p)
        s.add(extra)
        r = s.check()
        return r != z3.unsat

    def branch(self, cond):
        """Fork on a symbolic boolean; returns the Python bool chosen on this path."""
        if isinstance(cond, bool):
            return cond
        cond = z3.simplify(cond)
        if z3.is_true(cond):
            return True
        if z3.is_false(cond):
            return False
        if self.pos < len(self.log):
            d = self.log[self.pos]
        else:
            t_ok = self.feasible(cond)
            f_ok = self.feasible(z3.Not(cond))
            if t_ok and f_ok:
                self.explorer.pending.append(self.log[:self.pos] + [False])
                d = True
            elif t_ok:
                d = True
            elif f_ok:
                d = False
            else:
                raise Infeasible()
            self.log.append(d)
        self.pos += 1
        self.assume(cond if d else z3.Not(cond))
        return d

    def choose(self, n):
        """n-way non-deterministic choice (used for loop cuts); returns index."""
        if self.pos < len(self.log):
            d = self.log[self.pos]
        else:
            for alt in range(n - 1, 0, -1):
                self.explorer.pending.append(self.log[:self.pos] + [alt])
            d = 0
            self.log.append(d)
        self.pos += 1
        return d

    # -- heap
    def heap_get(self, key, sort_fn):
        if key not in self.heap:
            arr = z3.Const("H0$" + key, sort_fn())
            self.heap[key] = arr
            self.heap0_consts[key] = arr
        return self.heap[key]

    def field_key(self, field):
        return "f$" + field

    def read_field(self, ref, field, ty):
        arr = self.heap_get(self.field_key(field), lambda: z3.ArraySort(z3.IntSort(), sort_of(ty, self.num)))
        want = z3.ArraySort(z3.IntSort(), sort_of(ty, self.num))
        if arr.sort() != want:
            raise VerifError("field %s used at two sorts (%s vs %s): qualify it" % (field, arr.sort(), want))
        return self.wrap(z3.Select(arr, ref.term), ty)

    def write_field(self, ref, field, ty, value):
        key = self.field_key(field)
        arr = self.heap_get(key, lambda: z3.ArraySort(z3.IntSort(), sort_of(ty, self.num)))
        self.heap[key] = z3.Store(arr, ref.term, self.unwrap(value, ty))

    def list_len(self, ref):
        arr = self.heap_get("len", lambda: z3.ArraySort(z3.IntSort(), z3.IntSort()))
        return z3.Select(arr, ref.term)

    def set_list_len(self, ref, n):
        arr = self.heap_get("len", lambda: z3.ArraySort(z3.IntSort(), z3.IntSort()))
        self.heap["len"] = z3.Store(arr, ref.term, n if z3.is_expr(n) else z3.IntVal(n))

    def _el_key(self, ety):
        return "el$" + sort_key(sort_of(ety, self.num))

    def list_arr(self, ref, ety):
        s = sort_of(ety, self.num)
        arr = self.heap_get(self._el_key(ety), lambda: z3.ArraySort(z3.IntSort(), z3.ArraySort(z3.IntSort(), s)))
        return z3.Select(arr, ref.term)

    def set_list_arr(self, ref, ety, inner):
        s = sort_of(ety, self.num)
        key = self._el_key(ety)
        arr = self.heap_get(key, lambda: z3.ArraySort(z3.IntSort(), z3.ArraySort(z3.IntSort(), s)))
        self.heap[key] = z3.Store(arr, ref.term, inner)

    def list_get(self, ref, idx):
        ety = ref.ty.base.args[0]
        return self.wrap(z3.Select(self.list_arr(ref, ety), idx if z3.is_expr(idx) else z3.IntVal(idx)), ety)

    def list_set(self, ref, idx, value):
        ety = ref.ty.base.args[0]
        inner = self.list_arr(ref, ety)
        self.set_list_arr(ref, ety, z3.Store(inner, idx if z3.is_expr(idx) else z3.IntVal(idx),
                                             self.unwrap(value, ety)))

    def alloc(self, ty):
        term = self.wm + self.alloc_k if self.alloc_k else self.wm + 0
        term = z3.simplify(self.wm + self.alloc_k)
        self.alloc_k += 1
        return RefV(term, ty)

    def wm_now(self):
        return z3.simplify(self.wm + self.alloc_k)

    def bump_wm_unknown(self):
        """A callee with a contract may have allocated any number of objects."""
        old = self.wm_now()
        self.wm = self.fresh("$wm", z3.IntSort())
        self.alloc_k = 0
        self.assume(self.wm >= old)
        return old

    def new_list(self, ety, items=None):
        ref = self.alloc(Ty("list", [ety]))
        items = items or []
        self.set_list_len(ref, len(items))
        inner = self.fresh("newlist", z3.ArraySort(z3.IntSort(), sort_of(ety, self.num)))
        for i, it in enumerate(items):
            inner = z3.Store(inner, z3.IntVal(i), self.unwrap(it, ety))
        self.set_list_arr(ref, ety, inner)
        return ref

    def is_entry_map(self, key):
        return key in self.heap0_consts and self.heap.get(key) is not None and self.heap[key].eq(self.heap0_consts[key])

    def assume_ref_typed(self, v, key=None):
        """A reference read from the heap points to an allocated object.  Read from a map that is still the ENTRY heap
        constant (``key``), it points to an object allocated at entry: the entry heap is closed under dereferencing."""
        if isinstance(v, RefV):
            bound = self.wm_now()
            if key is not None and key in self.heap0_consts and self.heap.get(key) is not None \
                    and self.heap[key].eq(self.heap0_consts[key]):
                bound = self.wm_entry
            if v.ty.kind == "opt":
                self.assume(z3.And(v.term >= 0, v.term < bound))
            else:
                self.assume(z3.And(v.term > 0, v.term < bound))
            if v.ty.base.kind == "list":
                self.assume(self.list_len(v) >= 0)


_QCACHE = {}


def _has_quantifier(f):
    i = f.get_id()
    if i in _QCACHE:
        return _QCACHE[i]
    stack, seen, r = [f], set(), False
    while stack:
        e = stack.pop()
        if e.get_id() in seen:
            continue
        seen.add(e.get_id())
        if z3.is_quantifier(e):
            r = True
            break
        stack.extend(e.children())
    _QCACHE[i] = r
    return r


def _has_var(t):
    stack = [t]
    while stack:
        e = stack.pop()
        if z3.is_var(e):
            return True
        stack.extend(e.children())
    return False


def type_of_value(v):
    if isinstance(v, (RefV, StructV)):
        return v.ty
    if isinstance(v, bool):
        return T_BOOL
    if isinstance(v, int):
        return T_INT
    if isinstance(v, float):
        return T_FLOAT
    if v is None:
        return Ty("opt", [T_ANY])
    if isinstance(v, str):
        return Ty("str")
    if isinstance(v, tuple):
        return Ty("tuple", [type_of_value(x) for x in v])
    if z3.is_expr(v):
        s = v.sort()
        if s == z3.IntSort():
            return T_INT
        if s == z3.BoolSort():
            return T_BOOL
        if s == z3.RealSort() or z3.is_fp_sort(s):
            return T_FLOAT
    raise VerifError("cannot type value %r" % (v,))
