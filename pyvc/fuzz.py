"""Native counterexample search for a contract (used only AFTER a proof attempt failed or stayed undecided; its
silence proves nothing).  Type-directed random inputs, rejection by the natively evaluated ``requires``, the real
function from $VERIF_REPO is run and the ``ensures`` are evaluated natively.  Runs in a subprocess."""
import copy
import importlib
import inspect
import json
import math
import os
import random
import subprocess
import sys
import time

from . import loader
from .core import REG, parse_type

FLOAT_POOL = [0.0, 1.0, 0.5, 2.0, 0.25, 3.0, 1.5, -1.0, -0.5, 0.75, 4.0, 1e-3, 10.0, -2.0]


class Gen(object):
    def __init__(self, rng, module, model="R"):
        self.rng = rng
        self.module = module
        self.model = model
        self.token = 0

    def value(self, ty, depth=0):
        rng, k = self.rng, ty.kind
        if k == "float":
            r = rng.random()
            if r < 0.6:
                return rng.choice(FLOAT_POOL)
            if r < 0.9 or self.model != "F":
                # model R contracts are statements about reals: natively they are meaningful for well-conditioned
                # magnitudes only, so no extreme floats are generated for them
                return round(rng.uniform(-4, 4), 3)
            return rng.choice([1e-20, -1e-20, 1e10, 2.0 ** 52, math.nextafter(1.0, 0.0)])
        if k == "int":
            return rng.choice([0, 1, 2, 3, 0, 1, 2, 5, -1])
        if k == "bool":
            return rng.random() < 0.5
        if k in ("any", "str"):
            self.token += 1
            return rng.choice(["a", "b", "c", "d", ("id", self.token)])
        if k == "opt":
            return None if rng.random() < 0.25 else self.value(ty.args[0], depth)
        if k == "list":
            n = rng.choice([0, 1, 1, 2, 2, 3, 4]) if depth < 3 else 0
            return [self.value(ty.args[0], depth + 1) for _ in range(n)]
        if k == "tuple":
            return tuple(self.value(a, depth + 1) for a in ty.args)
        if k == "dict":
            n = rng.choice([0, 1, 2, 3])
            return {self.value(ty.args[0], depth + 1): self.value(ty.args[1], depth + 1) for _ in range(n)}
        if k == "ref":
            return self.obj(ty.name, depth)
        raise ValueError("cannot generate %r" % ty)

    def obj(self, cname, depth):
        klass = None
        info = None
        try:
            from .interp import Explorer
            info = Explorer(None).class_index(cname)
        except Exception:
            info = None
        if info is not None:
            klass = getattr(importlib.import_module(info.module.name), cname)
            names = [c.name for c in info.mro()]
        else:
            klass = getattr(self.module, cname)
            names = [cname]
        if getattr(klass, "__abstractmethods__", None):
            klass = type(klass.__name__, (klass,), {})
            klass.__abstractmethods__ = frozenset()
        o = object.__new__(klass)
        import logging
        for nf in REG.noop_fields:
            try:
                object.__setattr__(o, nf, logging.getLogger("verif-native"))
            except AttributeError:
                pass
        for (cn, f), fty in list(REG.fields.items()):
            if cn in names:
                try:
                    object.__setattr__(o, f, self.value(fty, depth + 1))
                except AttributeError:
                    pass
        return o


def _describe(v, depth=0):
    if isinstance(v, float):
        return repr(v)
    if isinstance(v, (int, bool, str, type(None))):
        return repr(v)
    if isinstance(v, (list, tuple)):
        inner = ", ".join(_describe(x, depth + 1) for x in v)
        return ("[%s]" if isinstance(v, list) else "(%s)") % inner
    if isinstance(v, dict):
        return "{%s}" % ", ".join("%s: %s" % (_describe(a), _describe(b)) for a, b in v.items())
    if hasattr(v, "__dict__") and depth < 4 and type(v).__module__.startswith("jellyfysh"):
        return "%s(%s)" % (type(v).__name__, ", ".join("%s=%s" % (k, _describe(x, depth + 1)) for k, x in vars(v).items()
                                                        if k not in REG.noop_fields))
    return repr(v)[:80]


def fuzz_main(case):
    from pyvc import native_eval
    for m in case.get("sidecars", []):
        importlib.import_module(m)
    natives = {}
    try:
        from contracts import axioms
        natives.update(getattr(axioms, "NATIVE", {}))
    except ImportError:
        pass
    c = REG.contracts[case["key"]]
    if ".c:" in c.qualname:
        return fuzz_c(c, case, natives)
    modname, _, rest = c.qualname.partition(":")
    module = importlib.import_module(modname)
    natives["$module"] = module
    if "." in rest:
        cname, _, fname = rest.partition(".")
        klass = getattr(module, cname)
        raw = None
        for k2 in klass.__mro__:
            if fname in k2.__dict__:
                raw = k2.__dict__[fname]
                break
        is_static = isinstance(raw, staticmethod)
        fn = raw.__func__ if is_static else raw
    else:
        klass, fn, is_static = None, getattr(module, rest), True
    names = list(inspect.signature(fn).parameters)
    ptypes = {}
    mod_ast, cls_info, fdef = loader.find_function(c.qualname)
    import ast as _ast
    all_names = list(names)
    for vn, vt in (c.ghost.get("varargs") or []):
        ptypes[vn] = parse_type(vt)
        all_names.append(vn)
    for gn, gt in (c.ghost.get("params") or {}).items():
        ptypes[gn] = parse_type(gt)
        all_names.append(gn)
    ptypes["args"] = parse_type("any")
    ptypes["kwargs"] = parse_type("any")
    for a in fdef.args.posonlyargs + fdef.args.args + fdef.args.kwonlyargs:
        if a.arg in c.params:
            ptypes[a.arg] = c.params[a.arg]
        elif a.arg == "self" and klass is not None:
            ptypes[a.arg] = parse_type(klass.__name__)
        elif a.annotation is not None:
            ptypes[a.arg] = parse_type(_ast.unparse(a.annotation))
    rng = random.Random(case.get("seed", 0))
    gen = Gen(rng, module, c.model)
    custom_gen = None
    if c.native_gen:
        ns = {"module": module}
        ns.update(vars(module))
        exec(c.native_gen, ns)
        custom_gen = ns["gen"]
    gvars = [(gm, gn, ty, invs) for (gm, gn), (ty, invs) in REG.globals.items()
             if gn in c.globals and (gm == modname or not any(g2 == gn and m2 == modname for (m2, g2) in REG.globals))]
    gmods = {gm: importlib.import_module(gm) for gm, _, _, _ in gvars}
    saved_globals = {(gm, gn): getattr(gmods[gm], gn, None) for gm, gn, _, _ in gvars}
    orig = {k: getattr(random, k) for k in ("uniform", "random", "expovariate", "choice", "randint")}
    stats = {"generated": 0, "accepted": 0, "evaluated_clauses": 0}
    deadline = time.time() + case.get("seconds", 10)
    found = None
    try:
        while stats["generated"] < case.get("n", 3000) and time.time() < deadline and found is None:
            stats["generated"] += 1
            for gm, gn, ty, invs in gvars:
                setattr(gmods[gm], gn, gen.value(ty))
            ok = True
            for gm, gn, ty, invs in gvars:
                for inv in invs:
                    genv = {g2: getattr(gmods[m2], g2) for m2, g2, _, _ in gvars}
                    if native_eval.eval_clause(inv, genv, None, c.model, None, natives, strict=True, tol=c.native_tol) is not True:
                        ok = False
            if not ok:
                continue
            if custom_gen is not None:
                try:
                    env = custom_gen(rng)
                except Exception:
                    continue
                for n in all_names:
                    if n not in env:
                        env[n] = gen.value(ptypes[n])
            else:
                env = {n: gen.value(ptypes[n]) for n in all_names}
            if any(native_eval.eval_clause(r, env, None, c.model, None, natives, strict=True, tol=c.native_tol) is not True for r in c.requires + c.assume):
                continue
            stats["accepted"] += 1
            draws = []

            def wrap(kind):
                def f(*a, **k):
                    if kind == "uniform" and rng.random() < 0.3:
                        v = a[0] if rng.random() < 0.5 else a[1]
                    elif kind == "choice":
                        i = rng.randrange(len(a[0]))
                        draws.append(i)
                        return a[0][i]
                    else:
                        v = orig[kind](*a, **k)
                    draws.append(v)
                    return v
                return f
            for kind in orig:
                setattr(random, kind, wrap(kind))
            try:
                old_env = copy.deepcopy(env)
            except Exception:
                return {"stats": stats, "found": None, "skipped": "inputs are not deep-copyable (custom __deepcopy__)"}
            shown = {k: _describe(v) for k, v in env.items()}
            shown_globals = {gn: _describe(getattr(gmods[gm], gn)) for gm, gn, _, _ in gvars}
            pre_ids = native_eval.collect_ids(env.values())
            raised = None
            try:
                call_args = []
                for n in names:
                    if n == "args" and (c.ghost.get("varargs")):
                        call_args.extend(env[vn] for vn, _ in c.ghost["varargs"])
                    elif n == "kwargs":
                        continue
                    else:
                        call_args.append(env[n])
                result = fn(*call_args)
            except BaseException as e:  # noqa
                raised, result = type(e).__name__, None
            finally:
                for kind in orig:
                    setattr(random, kind, orig[kind])
            for i, d in enumerate(draws):
                env["draw%d" % i] = d
                old_env["draw%d" % i] = d
            env["result"] = result
            violated = []
            if raised is not None and raised in c.may_raise:
                for cl in c.may_raise[raised] + c.native_may_raise.get(raised, []):
                    if native_eval.eval_clause(cl, env, old_env, c.model, pre_ids, natives, tol=c.native_tol) is False:
                        violated.append("raised-%s:%s" % (raised, cl))
            elif raised is not None:
                if raised not in c.raises:
                    violated.append("no-exception:%s" % raised)
                else:
                    cond = native_eval.eval_clause(c.raises[raised], old_env, None, c.model, None, natives, tol=c.native_tol)
                    if cond is False:
                        violated.append("raises:%s-only-when:%s" % (raised, c.raises[raised]))
            else:
                for exc, cond in c.raises.items():
                    if native_eval.eval_clause(cond, old_env, None, c.model, None, natives, tol=c.native_tol) is True:
                        violated.append("raises:%s-whenever:%s" % (exc, cond))
                for e in c.ensures + c.native_ensures:
                    v = native_eval.eval_clause(e, env, old_env, c.model, pre_ids, natives, tol=c.native_tol)
                    stats["evaluated_clauses"] += 1
                    if v is False:
                        violated.append(e)
            if violated and any(native_eval.eval_clause(k, old_env, None, c.model, None, natives, tol=0) is True
                                for k in case.get("known_classes", [])):
                # an input of a recorded known-finding class: reported by the deductive side, keep searching outside it
                stats["known_class_inputs"] = stats.get("known_class_inputs", 0) + 1
                violated = []
            if violated:
                found = {"inputs": shown, "globals": shown_globals, "draws": [repr(d) for d in draws],
                         "result": _describe(result), "raised": raised, "violated": violated}
    finally:
        for (gm, gn), v in saved_globals.items():
            setattr(gmods[gm], gn, v)
    return {"stats": stats, "found": found}


def fuzz_c(c, case, natives):
    """Native search for a C function whose parameters are all scalars (double / uint): the extension is rebuilt from
    the current source and called through cffi."""
    from monitors.harness import build_c_extensions, CEXT
    from pyvc import native_eval
    from pyvc.cfront import parse_c_file, ctype_of
    relpath, _, fname = c.qualname.partition(":")
    funcs = parse_c_file(relpath)[1]
    fdef = funcs[fname]
    params = [(p.name, ctype_of(p.type).kind) for p in (fdef.decl.type.args.params if fdef.decl.type.args else [])
              if getattr(p, "name", None)]
    if any(k not in ("double", "uint", "int") for _, k in params):
        return {"stats": {"generated": 0, "accepted": 0}, "found": None, "skipped": "non-scalar C parameters"}
    modname = None
    for mn, script in CEXT:
        if os.path.dirname(script) == os.path.dirname(relpath):
            modname = mn
    if modname is None:
        return {"stats": {"generated": 0, "accepted": 0}, "found": None, "skipped": "no cffi extension for this file"}
    so = build_c_extensions(os.environ.get("VERIF_REPO", "/repo"))[modname]
    import importlib.machinery
    import importlib.util
    loader_ = importlib.machinery.ExtensionFileLoader(modname.split(".")[-1], so)
    spec_ = importlib.util.spec_from_file_location(modname.split(".")[-1], so, loader=loader_)
    mod = importlib.util.module_from_spec(spec_)
    loader_.exec_module(mod)
    fn = getattr(mod.lib, fname)
    rng = random.Random(case.get("seed", 0))
    gen = Gen(rng, None, c.model)
    custom_gen = None
    if c.native_gen:
        ns = {}
        exec(c.native_gen, ns)
        custom_gen = ns["gen"]
    stats = {"generated": 0, "accepted": 0, "evaluated_clauses": 0}
    deadline = time.time() + case.get("seconds", 10)
    found = None
    while stats["generated"] < case.get("n", 3000) and time.time() < deadline and found is None:
        stats["generated"] += 1
        if custom_gen is not None:
            env = custom_gen(rng)
        else:
            env = {n: (gen.value(parse_type("float")) if k == "double" else abs(gen.value(parse_type("int")))) for n, k in params}
        if any(native_eval.eval_clause(r, env, None, c.model, None, natives, strict=True, tol=c.native_tol) is not True
               for r in c.requires + c.assume):
            continue
        stats["accepted"] += 1
        old_env = dict(env)
        result = fn(*[env[n] for n, _ in params])
        env["result"] = result
        violated = []
        for e in c.ensures + c.native_ensures:
            v = native_eval.eval_clause(e, env, old_env, c.model, None, natives, tol=c.native_tol)
            stats["evaluated_clauses"] += 1
            if v is False:
                violated.append(e)
        if violated:
            found = {"inputs": {k: repr(v) for k, v in old_env.items()}, "result": repr(result), "violated": violated,
                     "globals": {}, "draws": [], "raised": None}
    return {"stats": stats, "found": found}


def run_fuzz(key, sidecars, seed=0, n=3000, seconds=10, repo=None, known_classes=()):
    env = dict(os.environ)
    root = os.path.dirname(os.path.dirname(os.path.abspath(__file__)))
    env["PYTHONPATH"] = "%s:%s" % (repo or loader.REPO, root)
    env["VERIF_REPO"] = repo or loader.REPO
    case = {"key": key, "sidecars": sidecars, "seed": seed, "n": n, "seconds": seconds,
            "known_classes": list(known_classes)}
    try:
        p = subprocess.run([sys.executable, "-m", "pyvc.fuzz"], input=json.dumps(case), capture_output=True, text=True,
                           env=env, timeout=seconds + 60, cwd=root)
    except subprocess.TimeoutExpired:
        return {"error": "fuzz timeout"}
    if p.returncode != 0:
        return {"error": (p.stderr or "")[-1500:]}
    try:
        return json.loads(p.stdout.strip().splitlines()[-1])
    except (ValueError, IndexError):
        return {"error": "unparsable fuzz output: " + p.stdout[-300:]}


if __name__ == "__main__":
    print(json.dumps(fuzz_main(json.loads(sys.stdin.read()))))
