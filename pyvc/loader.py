"""Loads the *current* sources under $VERIF_REPO and resolves names, classes and methods by AST only."""
import ast
import hashlib
import os

REPO = os.environ.get("VERIF_REPO", "/repo")


class AnchorError(Exception):
    """A contract names a module/class/function that does not exist (any more) in the source tree."""


class Module(object):
    def __init__(self, name, path):
        self.name = name
        self.path = path
        with open(path) as f:
            self.source = f.read()
        self.tree = ast.parse(self.source, filename=path)
        self.is_package = os.path.basename(path) == "__init__.py"
        self.classes = {}
        self.funcs = {}
        self.imports = {}   # local name -> (module name, attribute or None)
        self.assigns = {}   # module-level simple assignments: name -> ast expression
        for node in self.tree.body:
            self._scan(node)

    def _scan(self, node):
        if isinstance(node, ast.ClassDef):
            self.classes[node.name] = ClassInfo(self, node)
        elif isinstance(node, (ast.FunctionDef,)):
            self.funcs[node.name] = node
        elif isinstance(node, ast.Import):
            for alias in node.names:
                self.imports[alias.asname or alias.name.split(".")[0]] = (alias.name if alias.asname else
                                                                           alias.name.split(".")[0], None)
        elif isinstance(node, ast.ImportFrom):
            base = self._resolve_relative(node.module, node.level)
            for alias in node.names:
                self.imports[alias.asname or alias.name] = (base, alias.name)
        elif isinstance(node, ast.Assign) and len(node.targets) == 1 and isinstance(node.targets[0], ast.Name):
            self.assigns[node.targets[0].id] = node.value
        elif isinstance(node, ast.If):
            # e.g. ``if implementation.name == "pypy": ... else: def add_memory_pressure`` -> take the else branch
            # (CPython), which is the interpreter the checks replay on.
            for sub in node.orelse:
                self._scan(sub)

    def _resolve_relative(self, module, level):
        if level == 0:
            return module
        parts = self.name.split(".")
        if not self.is_package:
            parts = parts[:-1]
        if level > 1:
            parts = parts[:-(level - 1)]
        return ".".join(parts + ([module] if module else []))


class ClassInfo(object):
    def __init__(self, module, node):
        self.module = module
        self.node = node
        self.name = node.name
        self.methods = {}
        self.class_attrs = {}
        self.decorators = {}
        for sub in node.body:
            if isinstance(sub, ast.FunctionDef):
                # property setters etc.: keep first definition unless decorated with .setter
                decos = [ast.unparse(d) for d in sub.decorator_list]
                if any(d.endswith(".setter") for d in decos):
                    self.methods[sub.name + "$setter"] = sub
                    continue
                self.methods[sub.name] = sub
                self.decorators[sub.name] = decos
            elif isinstance(sub, ast.Assign) and len(sub.targets) == 1 and isinstance(sub.targets[0], ast.Name):
                self.class_attrs[sub.targets[0].id] = sub.value

    @property
    def qualname(self):
        return self.module.name + ":" + self.name

    def bases(self):
        out = []
        for b in self.node.bases:
            name = ast.unparse(b)
            try:
                out.append(resolve_class(self.module, name))
            except AnchorError:
                pass  # object, ABCMeta-only bases, external classes
        return out

    def mro(self):
        seen, order = set(), []

        def visit(c):
            if c.qualname in seen:
                return
            seen.add(c.qualname)
            order.append(c)
            for b in c.bases():
                visit(b)
        visit(self)
        return order

    def find_method(self, name, after=None):
        """Return (owner ClassInfo, FunctionDef). ``after``: start the search after that class (super())."""
        order = self.mro()
        if after is not None:
            idx = [c.qualname for c in order].index(after.qualname)
            order = order[idx + 1:]
        for c in order:
            if name in c.methods:
                return c, c.methods[name]
        return None, None

    def is_subclass_of(self, other_name):
        return any(c.name == other_name for c in self.mro())


_MODULES = {}


def module_path(name):
    rel = name.replace(".", "/")
    for cand in (os.path.join(REPO, rel + ".py"), os.path.join(REPO, rel, "__init__.py")):
        if os.path.isfile(cand):
            return cand
    return None


def load_module(name):
    if name in _MODULES:
        return _MODULES[name]
    path = module_path(name)
    if path is None:
        raise AnchorError("module %s not found under %s" % (name, REPO))
    m = Module(name, path)
    _MODULES[name] = m
    return m


def is_repo_module(name):
    return name.split(".")[0] == "jellyfysh" and module_path(name) is not None


def resolve_global(module, name, _depth=0):
    """Resolve a module-level name to ('class', ClassInfo) | ('func', Module, FunctionDef) |
    ('assign', Module, expr) | ('module', modname) | ('external', modname, attr) | None."""
    if _depth > 10:
        return None
    if name in module.classes:
        return ("class", module.classes[name])
    if name in module.funcs:
        return ("func", module, module.funcs[name])
    if name in module.assigns:
        return ("assign", module, module.assigns[name])
    if name in module.imports:
        modname, attr = module.imports[name]
        if attr is None:
            return ("module", modname)
        if is_repo_module(modname):
            target = load_module(modname)
            r = resolve_global(target, attr, _depth + 1)
            if r is not None:
                return r
            sub = modname + "." + attr
            if is_repo_module(sub):
                return ("module", sub)
            return None
        return ("external", modname, attr)
    return None


def resolve_class(module, name):
    if "." in name:
        head, _, tail = name.partition(".")
        r = resolve_global(module, head)
        if r and r[0] == "module" and is_repo_module(r[1]):
            return resolve_class(load_module(r[1]), tail)
        raise AnchorError("class %s not resolvable from %s" % (name, module.name))
    r = resolve_global(module, name)
    if r and r[0] == "class":
        return r[1]
    raise AnchorError("class %s not found from module %s" % (name, module.name))


def find_function(qualname):
    """'pkg.mod:Class.method' or 'pkg.mod:function' -> (Module, ClassInfo|None, FunctionDef)."""
    modname, _, rest = qualname.partition(":")
    module = load_module(modname)
    if "." in rest:
        cname, _, fname = rest.partition(".")
        if cname not in module.classes:
            raise AnchorError("class %s not in %s" % (cname, modname))
        cls = module.classes[cname]
        owner, fn = cls.find_method(fname)
        if fn is None:
            raise AnchorError("method %s not found in %s" % (fname, cls.qualname))
        return owner.module, cls, fn
    if rest in module.funcs:
        return module, None, module.funcs[rest]
    raise AnchorError("function %s not in %s" % (rest, modname))


def source_hash(node, module):
    seg = ast.get_source_segment(module.source, node) or ast.unparse(node)
    return hashlib.sha256(seg.encode()).hexdigest()[:16]


def strip_docstring(body):
    if body and isinstance(body[0], ast.Expr) and isinstance(body[0].value, ast.Constant) \
            and isinstance(body[0].value.value, str):
        return body[1:]
    return body
