"""Discharging obligations: z3 (python API) first, cvc5 takes z3's unknowns.  Parallel, per-obligation budgets."""
import concurrent.futures as cf
import multiprocessing
import os
import sys
import subprocess
import tempfile
import time

import z3

NCPU = int(os.environ.get("VERIF_JOBS", "0")) or min(16, os.cpu_count() or 4)


Z3_BIN = os.path.join(os.path.dirname(os.path.dirname(os.path.abspath(__file__))), ".venv", "bin", "z3")
if not os.path.exists(Z3_BIN):
    Z3_BIN = "z3-new"
MEM_MB = int(os.environ.get("VERIF_SOLVER_MEM_MB", "3500"))


def _run_cli(cmd, path, timeout_s):
    t = time.time()
    try:
        p = subprocess.run(cmd + [path], capture_output=True, text=True, timeout=timeout_s + 5)
        out = (p.stdout or "").strip().splitlines()
        r = out[0].strip() if out else "unknown"
        reason = " ".join(out[1:3])[:160] + (p.stderr or "")[:160]
        if r not in ("sat", "unsat"):
            reason = (r + " " + reason)[:200]
            r = "unknown"
        return r, time.time() - t, reason
    except subprocess.TimeoutExpired:
        return "unknown", time.time() - t, "hard timeout"
    except OSError as e:
        return "unknown", time.time() - t, "oserror %s" % e


def _race(cmds, timeout_s):
    """Run several solver processes on the same query; first definitive answer wins, the rest are killed."""
    t = time.time()
    procs = []
    for name, cmd in cmds:
        procs.append((name, subprocess.Popen(cmd, stdout=subprocess.PIPE, stderr=subprocess.PIPE, text=True)))
    result, backend, reasons = "unknown", "", []
    live = list(procs)
    try:
        while live and time.time() - t < timeout_s + 5:
            for name, p in list(live):
                if p.poll() is not None:
                    live.remove((name, p))
                    out = (p.stdout.read() or "").strip().splitlines()
                    r = out[0].strip() if out else "unknown"
                    if r in ("sat", "unsat"):
                        return r, time.time() - t, name, ""
                    reasons.append("%s: %s" % (name, " ".join(out[:2])[:100] or (p.stderr.read() or "")[:100]))
            time.sleep(0.02)
        if live:
            reasons.append("hard timeout")
        return "unknown", time.time() - t, "+".join(n for n, _ in procs), " | ".join(reasons)
    finally:
        for name, p in procs:
            if p.poll() is None:
                p.kill()
            try:
                p.wait(timeout=5)
            except Exception:
                pass
            for fh in (p.stdout, p.stderr):
                try:
                    fh.close()
                except Exception:
                    pass


def _write_tmp(text):
    with tempfile.NamedTemporaryFile("w", suffix=".smt2", delete=False) as f:
        f.write(text if "(set-logic" in text else "(set-logic ALL)\n" + text)
        return f.name


def _qf_text(smt2):
    """The query with every quantified HYPOTHESIS dropped (the last assertion is the negated goal and is kept).
    Weaker than the input: only its ``unsat`` counts."""
    try:
        fs = list(z3.parse_smt2_string(smt2))
        if len(fs) < 2:
            return None
        keep = [f for f in fs[:-1] if not any(z3.is_quantifier(e) for e in _walk([f]))]
        if len(keep) == len(fs) - 1:
            return None
        s = z3.Solver()
        for f in keep + [fs[-1]]:
            s.add(f)
        return s.to_smt2()
    except z3.Z3Exception:
        return None


def _nla_text(smt2):
    """The query with every NONLINEAR real product / quotient replaced by an uninterpreted function application
    (congruence only).  Weaker than the input: only its ``unsat`` counts.  None if the query is linear."""
    try:
        fs = list(z3.parse_smt2_string(smt2))
    except z3.Z3Exception:
        return None
    R = z3.RealSort()
    mul = z3.Function("nl$mul", R, R, R)
    div = z3.Function("nl$div", R, R, R)
    cache, hit = {}, [0]

    def ab(e):
        k = e.get_id()
        if k in cache:
            return cache[k]
        if z3.is_quantifier(e) or not z3.is_app(e) or e.num_args() == 0 or z3.is_rational_value(z3.simplify(e)):
            r = z3.simplify(e) if (z3.is_app(e) and e.num_args() > 0 and not z3.is_quantifier(e)) else e
        else:
            ch = [ab(c) for c in e.children()]
            kind = e.decl().kind()
            if kind == z3.Z3_OP_MUL and e.sort() == R and len([c for c in ch if not z3.is_rational_value(c)]) >= 2:
                non = [c for c in ch if not z3.is_rational_value(c)]
                acc = non[0]
                for c in non[1:]:
                    acc = mul(acc, c)
                for c in ch:
                    if z3.is_rational_value(c):
                        acc = c * acc
                r = acc
                hit[0] += 1
            elif kind == z3.Z3_OP_DIV and not z3.is_rational_value(ch[1]):
                r = div(ch[0], ch[1])
                hit[0] += 1
            else:
                r = e.decl()(*ch)
        cache[k] = r
        return r
    out = [ab(f) for f in fs]
    if not hit[0]:
        return None
    sv = z3.Solver()
    for f in out:
        sv.add(f)
    return sv.to_smt2()


def _inst_text(smt2):
    """Ground-instantiated (weaker) version of a query, or None."""
    try:
        fs = list(z3.parse_smt2_string(smt2))
        if not any(z3.is_quantifier(e) for e in _walk(fs)):
            return None
        inst = instantiate_quantifiers(fs)
        if inst is None:
            return None
        inst = ackermannize(inst)
        s = z3.Solver()
        for f in inst:
            s.add(f)
        return s.to_smt2()
    except z3.Z3Exception:
        return None


def solve_one(job):
    """Runs in a worker process.  Portfolio per query, each member a separate solver process under hard limits:
      1. z3 on the query (short budget) - or cvc5 raced against z3 for floating-point queries;
      2. if quantifiers are present: the ground-instantiated, weaker query (only its ``unsat`` counts);
      3. z3 with the full budget, then cvc5.
    Covers/canaries (expected ``sat``) use the ground-instantiated query only."""
    idx, smt2, timeout_ms, use_cvc5, expect_sat = job
    tsec = max(1, int(timeout_ms / 1000))
    has_q = "(forall" in smt2 or "(exists" in smt2
    paths = []
    try:
        if expect_sat:
            if has_q:
                # covers / canaries: a validated model (counterexample-guided instantiation) answers quickly
                t0 = time.time()
                try:
                    rc, _m = cegar(list(z3.parse_smt2_string(smt2)), budget_s=6, timeout_ms=4000)
                except z3.Z3Exception:
                    rc = "unknown"
                if rc in ("sat", "unsat"):
                    return idx, rc, time.time() - t0, "z3-5.1.0(counterexample-guided instantiation)", ""
            text = (_inst_text(smt2) if has_q else None) or smt2
            path = _write_tmp(text)
            paths.append(path)
            r, secs, backend, reason = _race([("z3-5.1.0", [Z3_BIN, "-T:6", "-memory:%d" % MEM_MB, path])], 6)
            return idx, r, secs, backend, reason
        path = _write_tmp(smt2)
        paths.append(path)
        z3cmd = lambda t: [Z3_BIN, "-T:%d" % t, "-memory:%d" % MEM_MB, path]
        cvccmd = ["/usr/bin/cvc5", "--tlimit=%d" % (tsec * 1000), "--fp-exp", path]
        if "FloatingPoint" in smt2 and use_cvc5:
            return (idx,) + _race([("z3-5.1.0", z3cmd(tsec)), ("cvc5-1.0.3", cvccmd)], tsec)
        secs, reason, backend = 0.0, "", "z3-5.1.0"
        inst_sat = False
        if has_q:
            # most obligations need no quantified hypothesis at all: try without them first (only unsat counts)
            t0 = time.time()
            qf = _qf_text(smt2)
            secs += time.time() - t0
            if qf is not None:
                qpath = _write_tmp(qf)
                paths.append(qpath)
                rq, sq, bq, _ = _race([("z3-5.1.0", [Z3_BIN, "-T:3", "-memory:%d" % MEM_MB, qpath])], 3)
                secs += sq
                if rq == "unsat":
                    return idx, rq, secs, bq + "(quantifier-free hypotheses only)", ""
            # then a quick attempt on the full query
            r0, s0, b0, reason0 = _race([("z3-5.1.0", z3cmd(3))], 3)
            secs += s0
            if r0 != "unknown":
                return idx, r0, secs, b0, reason0
            # counterexample-guided instantiation: decides both ways when the quantified hypotheses are finitely
            # instantiable (unsat: weaker ground set refuted; sat: model validated against every quantified hypothesis)
            t0 = time.time()
            try:
                rc, _m = cegar(list(z3.parse_smt2_string(smt2)), budget_s=min(tsec, 25))
            except z3.Z3Exception:
                rc = "unknown"
            secs += time.time() - t0
            if rc == "unsat":
                return idx, rc, secs, "z3-5.1.0(counterexample-guided instantiation: ground instances refuted)", ""
            if rc == "sat":
                return idx, rc, secs, "z3-5.1.0(counterexample-guided instantiation: model validated against every quantified hypothesis)", ""
            # nonlinear products / quotients as uninterpreted functions (weaker: only unsat counts)
            if " (* " in smt2 or "(/ " in smt2:
                t0 = time.time()
                nla = _nla_text(smt2)
                secs += time.time() - t0
                if nla is not None:
                    npath = _write_tmp(nla)
                    paths.append(npath)
                    rn, sn, bn, _ = _race([("z3-5.1.0", [Z3_BIN, "-T:10", "-memory:%d" % MEM_MB, npath])], 10)
                    secs += sn
                    if rn == "unsat":
                        return idx, rn, secs, bn + "(nonlinear terms uninterpreted)", ""
            t0 = time.time()
            inst = _inst_text(smt2)
            secs += time.time() - t0
            if inst is not None:
                ipath = _write_tmp(inst)
                paths.append(ipath)
                r2, s2, b2, reason2 = _race([("z3-5.1.0", [Z3_BIN, "-T:%d" % min(tsec, 20), "-memory:%d" % MEM_MB, ipath])], min(tsec, 20))
                secs += s2
                if r2 == "unsat":
                    return idx, r2, secs, b2 + "(ground-instantiated)", ""
                inst_sat = (r2 == "sat")
        members = [("z3-5.1.0", z3cmd(tsec))] + ([("cvc5-1.0.3", cvccmd)] if use_cvc5 else [])
        r, s1, backend, reason = _race(members, tsec)
        secs += s1
        if r != "unknown":
            return idx, r, secs, backend, reason
        return idx, "unknown", secs, backend, ("[ground-instance-model-exists] " if inst_sat else "") + reason
    finally:
        for p in paths:
            try:
                os.unlink(p)
            except OSError:
                pass


def discharge(obligations, timeout_ms=30000, use_cvc5=True, jobs=None):
    """Fills ob.result / ob.seconds / ob.backend for every obligation."""
    jobs = jobs or NCPU
    work = []
    for i, ob in enumerate(obligations):
        g = z3.simplify(ob.goal)
        if z3.is_true(g):
            ob.result, ob.seconds, ob.backend = "unsat", 0.0, "simplifier"
            continue
        work.append((i, obligation_smt2(ob), timeout_ms, use_cvc5, bool(ob.expect_fail)))
    if not work:
        return
    if len(work) == 1 or jobs == 1:
        results = [solve_one(w) for w in work]
    else:
        mp = multiprocessing.get_context("fork")
        with cf.ProcessPoolExecutor(max_workers=min(jobs, len(work)), mp_context=mp) as ex:
            results = []
            verbose = os.environ.get("VERIF_VERBOSE")
            for res in ex.map(solve_one, work, chunksize=1):
                results.append(res)
                if verbose and res[2] > float(verbose):
                    sys.stderr.write("  [%s %.1fs %s] %s\n" % (res[1], res[2], res[3][:40], obligations[res[0]].name[:150]))
                    sys.stderr.flush()
    for idx, r, secs, backend, reason in results:
        ob = obligations[idx]
        ob.result, ob.seconds, ob.backend = r, secs, backend
        ob.info["reason"] = reason
        if r == "unknown" and "[ground-instance-model-exists]" in reason and not ob.expect_fail:
            t0 = time.time()
            try:
                m = confirm_candidate(ob)
            except z3.Z3Exception:
                m = None
            ob.seconds += time.time() - t0
            if m is not None:
                ob.result = "sat"
                ob.backend = "z3-5.1.0 (model of the ground instances, validated against every quantified hypothesis)"
                ob.model = m


def _model_via_ack(fs, timeout_ms=20000):
    """A model of the quantifier-free formulas ``fs``: solve the Ackermannised set (plain arithmetic, where z3 is
    strong), pin every value it gives to a scalar constant or a read A[t], and let z3 complete the model of the original
    formulas with those pins.  None if no model is found."""
    direct = _api_model(fs, min(int(timeout_ms), 5000))
    if direct is not None:
        return direct
    subs = []
    try:
        afs = ackermannize(fs, subs_out=subs)
    except z3.Z3Exception:
        return None
    sv = z3.Solver()
    sv.set("timeout", int(timeout_ms))
    for f in afs:
        sv.add(f)
    if sv.check() != z3.sat:
        return None
    ma = sv.model()
    back = dict((c.decl().name(), sel) for sel, c in subs)
    pins = []
    for d in ma.decls():
        if d.arity() != 0:
            continue
        v = ma[d]
        if v is None or z3.is_array(v):
            continue
        c = d()
        if c.sort().kind() not in (z3.Z3_INT_SORT, z3.Z3_REAL_SORT, z3.Z3_BOOL_SORT):
            continue
        pins.append((back.get(d.name(), c)) == v)
    return _api_model(list(fs) + pins, timeout_ms)


def candidate_model(ob, timeout_ms=20000):
    """An UNVALIDATED model of the ground-instantiated weakening of an undecided obligation: only a candidate input
    for a native replay (which alone decides whether it is a counterexample)."""
    fs = list(ob.pc) + [z3.Not(ob.goal)]
    try:
        m = cegar_model(fs)
        if m is not None:
            return m
    except z3.Z3Exception:
        pass
    try:
        inst = instantiate_quantifiers(fs, budget_s=10.0)
    except z3.Z3Exception:
        return None
    if not inst:
        return None
    return _model_via_ack(inst, timeout_ms)


def confirm_candidate(ob, timeout_ms=20000):
    """The full query is undecided because of quantified hypotheses, but its ground-instantiated weakening has a model.
    Obtain that model and VALIDATE it: every quantified hypothesis, evaluated under the model's interpretation of all
    constants / arrays / functions, must have no falsifying instance.  A validated model is a genuine counter-model of
    the obligation (result becomes ``sat``); otherwise the obligation stays undecided."""
    fs = list(ob.pc) + [z3.Not(ob.goal)]
    try:
        m = cegar_model(fs)
        if m is not None:
            return m
    except z3.Z3Exception:
        pass
    try:
        inst = instantiate_quantifiers(fs, budget_s=10.0)
    except z3.Z3Exception:
        return None
    if not inst:
        return None
    m = _model_via_ack(inst, timeout_ms)
    if m is None:
        return None
    for f in fs:
        if not any(z3.is_quantifier(e) for e in _walk([f])):
            v = m.eval(f, model_completion=True)
            if z3.is_false(v):
                return None
            if not z3.is_true(v):
                c = z3.Solver()
                c.set("timeout", 5000)
                c.add(z3.Not(v))
                if c.check() != z3.unsat:
                    return None
            continue
        v = m.eval(f, model_completion=True)
        c = z3.Solver()
        c.set("timeout", 10000)
        c.add(z3.Not(v))
        if c.check() != z3.unsat:
            return None
    return m


def cegar(formulas, rounds=60, budget_s=40.0, timeout_ms=10000, int_bound=None):
    """Counterexample-guided instantiation (model finding for a query with universally quantified hypotheses).
    NNF + skolemisation, every formula prenexed to  forall cs. body  (body quantifier free); then repeat:
      M := a model of the ground formulas and the instances collected so far;
      for every quantified formula: is there a value of cs that falsifies body UNDER M (all symbols interpreted by M)?
        yes -> add that instance;   no (for all of them) -> M satisfies every formula: a genuine model, returned.
    Returns ("sat", M) | ("unsat", None) - the ground formulas with the collected instances are unsatisfiable, hence so
    is the query - | ("unknown", None)."""
    t_start = time.time()
    g = z3.Goal()
    for f in formulas:
        g.add(f)
    try:
        out = z3.Then(z3.Tactic("simplify"), z3.Tactic("nnf"))(g)
    except z3.Z3Exception:
        return "unknown", None
    if len(out) != 1:
        return "unknown", None
    fs = []
    for f in out[0]:
        fs.extend(f.children() if z3.is_and(f) else [f])
    counter = [0]

    def has_q(e):
        return any(z3.is_quantifier(x) for x in _walk([e]))

    def prenex(e):
        if not has_q(e):
            return [], e
        if z3.is_quantifier(e):
            if not e.is_forall():
                raise ValueError("existential after skolemisation")
            cs = []
            for i in range(e.num_vars()):
                counter[0] += 1
                cs.append(z3.Const("cg!%s!%d" % (e.var_name(i), counter[0]), e.var_sort(i)))
            vs, b = prenex(z3.substitute_vars(e.body(), *reversed(cs)))
            return cs + vs, b
        if z3.is_and(e) or z3.is_or(e):
            allv, bodies = [], []
            for c in e.children():
                v, b = prenex(c)
                allv += v
                bodies.append(b)
            return allv, (z3.And(*bodies) if z3.is_and(e) else z3.Or(*bodies))
        raise ValueError("quantifier under %s" % e.decl().name())
    ground, quants = [], []
    try:
        for f in fs:
            cs, b = prenex(f)
            (quants if cs else ground).append((cs, b))
    except ValueError:
        return "unknown", None
    ground = [b for _, b in ground]
    if not quants:
        return "unknown", None
    # seed: the pattern-guided ground instances (cheap, and usually almost enough)
    if int_bound is not None:
        # search for a SMALL model: every integer constant within [-int_bound, int_bound] (sizes, indices, references).
        # Only a ``sat`` answer of such a restricted search means anything.
        seen_c = {}
        for e in _walk(ground + [b for _, b in quants]):
            if z3.is_const(e) and e.decl().kind() == z3.Z3_OP_UNINTERPRETED and e.sort().kind() == z3.Z3_INT_SORT \
                    and not e.decl().name().startswith("cg!"):
                seen_c[e.get_id()] = e
        for e in seen_c.values():
            ground.append(z3.And(e >= -int_bound, e <= int_bound))
    if os.environ.get("VERIF_CEGAR_SEED"):
        try:
            seed = instantiate_quantifiers(formulas, budget_s=5.0)
            if seed:
                ground = ground + [f for f in seed if not has_q(f)]
        except z3.Z3Exception:
            pass
    done_points = set()
    for rnd in range(rounds):
        if time.time() - t_start > budget_s:
            return "unknown", None
        s = z3.Solver()
        s.set("timeout", int(timeout_ms))
        for f in ground:
            s.add(f)
        rr = s.check()
        if rr != z3.sat:
            if os.environ.get("VERIF_CEGAR_DEBUG"):
                sys.stderr.write("cegar: ground set %s after %d formulas\n" % (rr, len(ground)))
            return ("unsat", None) if (rr == z3.unsat and int_bound is None) else ("unknown", None)
        m = s.model()
        added = False
        new_points = set()
        for cs, body in quants:
            # evaluate the body under M with cs kept symbolic (as de Bruijn variables during evaluation)
            vars_ = [z3.Var(i, c.sort()) for i, c in enumerate(cs)]
            bv = z3.substitute(body, *zip(cs, vars_))
            ev = m.eval(bv, model_completion=True)
            ev = z3.substitute_vars(ev, *cs)
            c = z3.Solver()
            c.set("timeout", 5000)
            c.add(z3.Not(ev))
            r = c.check()
            if r == z3.unsat:
                continue
            if r != z3.sat:
                if os.environ.get("VERIF_CEGAR_DEBUG"):
                    sys.stderr.write("cegar: instance check unknown: %s\n" % ev.sexpr()[:400])
                return "unknown", None
            w = c.model()
            vals = [w.eval(x, model_completion=True) for x in cs]
            ground.append(z3.substitute(body, *zip(cs, vals)))
            added = True
        if not added:
            if os.environ.get("VERIF_CEGAR_DEBUG"):
                sys.stderr.write("cegar: validated model after %d rounds, %d formulas, %.1fs\n" % (rnd + 1, len(ground), time.time() - t_start))
            return "sat", m
    return "unknown", None


def cegar_model(formulas, **kw):
    r, m = cegar(formulas, **kw)
    return m if r == "sat" else None


def obligation_smt2(ob, ack=True):
    fs = list(ob.pc) + [z3.Not(ob.goal)]
    if ack:
        fs = ackermannize(fs)
    s = z3.Solver()
    for f in fs:
        s.add(f)
    return s.to_smt2()


def _api_model(fs, timeout_ms):
    s = z3.Solver()
    s.set("timeout", int(timeout_ms))
    for f in fs:
        s.add(f)
    if s.check() == z3.sat:
        return s.model()
    return None


def _cvc5_scalar_values(fs, timeout_s):
    """Ask cvc5 for a model of the (ackermannised) query; return z3 equalities  const == value  for scalar constants."""
    import re
    subs = []
    afs = ackermannize(fs, subs_out=subs)
    s = z3.Solver()
    for f in afs:
        s.add(f)
    text = "(set-logic ALL)\n(set-option :produce-models true)\n" + s.to_smt2() + "\n(get-model)\n"
    with tempfile.NamedTemporaryFile("w", suffix=".smt2", delete=False) as f:
        f.write(text)
        path = f.name
    try:
        p = subprocess.run(["/usr/bin/cvc5", "--tlimit=%d" % (timeout_s * 1000), "--fp-exp", path],
                           capture_output=True, text=True, timeout=timeout_s + 10)
    except subprocess.TimeoutExpired:
        return None
    finally:
        os.unlink(path)
    out = p.stdout
    if not out.startswith("sat"):
        return None
    decls, eqs = [], []
    for m in re.finditer(r"\(define-fun (\S+) \(\) (\(_ FloatingPoint 11 53\)|Int|Real|Bool) (.*)\)\s*$", out, re.M):
        name, sort, val = m.group(1), m.group(2), m.group(3)
        decls.append("(declare-fun %s () %s)" % (name, sort))
        eqs.append("(assert (= %s %s))" % (name, val))
    if not decls:
        return None
    try:
        parsed = z3.parse_smt2_string("\n".join(decls + eqs))
    except z3.Z3Exception:
        return None
    # map ackermann constants back to the select terms they stand for
    back = [(c, sel) for sel, c in subs]
    return [z3.substitute(e, *back) if back else e for e in parsed]


def obligation_inst_smt2(ob):
    fs = list(ob.pc) + [z3.Not(ob.goal)]
    if not any(z3.is_quantifier(e) for e in _walk(fs)):
        return None
    try:
        inst = instantiate_quantifiers(fs)
    except z3.Z3Exception:
        return None
    if inst is None:
        return None
    inst = ackermannize(inst)
    s = z3.Solver()
    for f in inst:
        s.add(f)
    return s.to_smt2()


def get_model(ob, timeout_ms=30000, extra=()):
    """Re-solve a failed obligation in this process to obtain a model: z3 API first; if it does not answer quickly,
    cvc5 supplies values for the scalar inputs and z3 completes the model with those pinned."""
    fs = list(ob.pc) + [z3.Not(ob.goal)]
    quick = min(int(timeout_ms), 15000)
    if any(z3.is_quantifier(e) for e in _walk(fs)):
        try:
            m = cegar_model(fs + list(extra)) if extra else None
            m = m or cegar_model(fs)
            if m is not None:
                return m
        except z3.Z3Exception:
            pass
    if extra:
        m = _api_model(fs + list(extra), quick)
        if m is not None:
            return m
    m = _api_model(fs, quick)
    if m is not None:
        return m
    pins = _cvc5_scalar_values(fs, max(10, int(timeout_ms / 1000)))
    if pins:
        return _api_model(fs + list(pins), timeout_ms)
    return None


# ----------------------------------------------------------------------------------------- preprocessing
def _walk(fs):
    seen, stack, order = set(), list(fs), []
    while stack:
        e = stack.pop()
        i = e.get_id()
        if i in seen:
            continue
        seen.add(i)
        order.append(e)
        if z3.is_quantifier(e):
            stack.append(e.body())
        else:
            stack.extend(e.children())
    return order


def _contains_var(e, cache):
    i = e.get_id()
    if i in cache:
        return cache[i]
    if z3.is_var(e):
        r = True
    elif z3.is_quantifier(e):
        r = True   # conservative
    else:
        r = any(_contains_var(c, cache) for c in e.children())
    cache[i] = r
    return r


def ackermannize(formulas, rounds=4, subs_out=None):
    """Replace reads ``A[t]`` of array *constants* that are only ever read at ground indices by fresh constants
    plus the congruence axioms (Ackermann's reduction; equisatisfiable).  z3's combination of the array/UF
    theory with mixed integer-real arithmetic is incomplete on our heap reads; the reduction makes those
    obligations plain LIRA."""
    fs = [z3.simplify(f) for f in formulas]
    n_fresh = [0]
    for _ in range(rounds):
        nodes = _walk(fs)
        varcache = {}
        reads = {}      # array const id -> list of select terms
        bad = set()
        consts = {}
        for e in nodes:
            if z3.is_quantifier(e) or not z3.is_app(e):
                continue
            if z3.is_select(e) and z3.is_const(e.arg(0)) and e.arg(0).decl().kind() == z3.Z3_OP_UNINTERPRETED:
                a = e.arg(0)
                consts[a.get_id()] = a
                if _contains_var(e.arg(1), varcache):
                    bad.add(a.get_id())
                else:
                    reads.setdefault(a.get_id(), []).append(e)
                # the index may itself mention arrays
                children = [e.arg(1)]
            else:
                children = e.children()
            for c in children:
                if z3.is_const(c) and z3.is_array(c) and c.decl().kind() == z3.Z3_OP_UNINTERPRETED \
                        and not (z3.is_select(e) and c.eq(e.arg(0)) and False):
                    # array constant used other than as the array operand of a select
                    if not (z3.is_select(e) and e.arg(0).eq(c)) or (z3.is_select(e) and e.arg(1).eq(c)):
                        bad.add(c.get_id())
        # an array const also occurring under a quantifier body as non-read is caught above; occurrences inside
        # quantifier bodies are walked too (bodies contain vars -> reads at var indices mark it bad)
        # the congruence axioms are quadratic in the number of reads: arrays read at many places stay arrays
        todo = [aid for aid in reads if aid not in bad and len(reads[aid]) <= 40]
        if not todo:
            break
        subs, extra = [], []
        for aid in todo:
            sels = reads[aid]
            fresh = []
            for s in sels:
                n_fresh[0] += 1
                c = z3.Const("%s@%d" % (consts[aid].decl().name(), n_fresh[0]), s.sort())
                fresh.append(c)
                subs.append((s, c))
            for i in range(len(sels)):
                for j in range(i + 1, len(sels)):
                    extra.append(z3.Implies(sels[i].arg(1) == sels[j].arg(1), fresh[i] == fresh[j]))
        # substitute innermost-last: z3.substitute handles simultaneous substitution of distinct terms
        if subs_out is not None:
            subs_out.extend(subs)
        fs = [z3.substitute(f, *subs) for f in fs] + [z3.substitute(x, *subs) for x in extra]
        fs = [z3.simplify(f) for f in fs]
    return fs


# ------------------------------------------------------------------ manual quantifier instantiation (portfolio member)
def _ground_fun_args(fs):
    """{(function name, argument position): [ground argument terms]} for uninterpreted functions and selects."""
    out = {}
    cache = {}
    for e in _walk(fs):
        if z3.is_quantifier(e) or not z3.is_app(e) or e.num_args() == 0:
            continue
        if e.decl().kind() == z3.Z3_OP_UNINTERPRETED:
            name = e.decl().name()
        elif z3.is_select(e):
            name = "select"
        else:
            continue
        for i, c in enumerate(e.children()):
            if not _contains_var(c, cache):
                out.setdefault((name, i), {})[c.get_id()] = c
    return {k: list(v.values()) for k, v in out.items()}


def _var_positions(body, nvars):
    """For each bound variable (de Bruijn index): the (function, position) slots where it occurs DIRECTLY as an argument."""
    pos = {i: set() for i in range(nvars)}
    for e in _walk([body]):
        if z3.is_quantifier(e) or not z3.is_app(e) or e.num_args() == 0:
            continue
        if e.decl().kind() == z3.Z3_OP_UNINTERPRETED:
            name = e.decl().name()
        elif z3.is_select(e):
            name = "select"
        else:
            continue
        for i, c in enumerate(e.children()):
            if z3.is_var(c):
                idx = z3.get_var_index(c)
                if idx < nvars:
                    pos[idx].add((name, i))
    return pos


def _ground_terms_by_sort(fs, sorts):
    """Candidate instantiation terms per sort: array-sorted ground subterms; integer ground terms used as indices,
    as arguments of uninterpreted functions, plus integer constants and their negations."""
    out = {s: {} for s in sorts}
    cache = {}
    int_s = z3.IntSort()
    real_s = z3.RealSort()
    if real_s in out:
        for (fname, i), ts in _ground_fun_args(fs).items():
            for t in ts:
                if t.sort() == real_s:
                    out[real_s][t.get_id()] = t
    for e in _walk(fs):
        if z3.is_quantifier(e) or not z3.is_app(e):
            continue
        es = e.sort()
        if z3.is_array(e) and es in out and not _contains_var(e, cache):
            out[es][e.get_id()] = e
        if int_s not in out:
            continue
        cands = []
        if z3.is_select(e) or z3.is_store(e):
            cands = [e.arg(1)]
        elif e.decl().kind() == z3.Z3_OP_UNINTERPRETED and e.num_args() > 0:
            cands = e.children()
        if z3.is_const(e) and es == int_s and e.decl().kind() == z3.Z3_OP_UNINTERPRETED:
            out[int_s][e.get_id()] = e
            neg = z3.simplify(-e)
            out[int_s][neg.get_id()] = neg
        for c in cands:
            if c.sort() == int_s and not _contains_var(c, cache):
                out[int_s][c.get_id()] = c
    return {s: list(d.values()) for s, d in out.items()}


def instantiate_quantifiers(formulas, rounds=3, max_inst=300, budget_s=5.0):
    """NNF + skolemisation (z3 tactic), then every remaining universal quantifier - at top level or nested under
    and/or (all positions are positive after NNF) - is replaced by the conjunction of its instances at the ground
    terms of the query.  The result is WEAKER than the input (hypotheses dropped), so ``unsat`` of the result proves
    the original obligation; any other answer is inconclusive."""
    import itertools
    g = z3.Goal()
    for f in formulas:
        g.add(f)
    try:
        out = z3.Then(z3.Tactic("simplify"), z3.Tactic("nnf"))(g)
    except z3.Z3Exception:
        return None
    if len(out) != 1:
        return None
    fs = []
    for f in out[0]:
        if z3.is_and(f):
            fs.extend(f.children())
        else:
            fs.append(f)
    if not any(z3.is_quantifier(f) for f in _walk(fs)):
        return None
    t_start = time.time()
    state = {"n": 0}
    fun_args = {}

    def has_q(e, cache={}):
        i = e.get_id()
        if i not in cache:
            cache[i] = any(z3.is_quantifier(x) for x in _walk([e]))
        return cache[i]

    def inst(e, terms, depth):
        """instance-closure of a positive formula"""
        if not has_q(e):
            return e
        if time.time() - t_start > budget_s or state["n"] > 4000:
            return z3.BoolVal(True)
        if z3.is_quantifier(e):
            if not e.is_forall():
                return z3.BoolVal(True)      # (should not occur after skolemisation) - dropping is sound
            n = e.num_vars()
            pools = []
            slots = _var_positions(e.body(), n)
            for i in range(n):
                # variable i of the quantifier has de Bruijn index n-1-i in the body
                sl = slots.get(n - 1 - i, set())
                cand = {}
                for key in sl:
                    for t in fun_args.get(key, []):
                        if t.sort() == e.var_sort(i):
                            cand[t.get_id()] = t
                pool = list(cand.values()) if sl else terms.get(e.var_sort(i), [])
                if not pool and sl:
                    pool = terms.get(e.var_sort(i), [])
                pools.append(pool)
            if any(not p for p in pools):
                return z3.BoolVal(True)
            parts = []
            for combo in itertools.islice(itertools.product(*pools), max_inst):
                state["n"] += 1
                body = z3.substitute_vars(e.body(), *reversed(combo))
                parts.append(inst(z3.simplify(body), terms, depth + 1))
                if time.time() - t_start > budget_s:
                    break
            return z3.And(*parts) if parts else z3.BoolVal(True)
        if z3.is_and(e):
            return z3.And(*[inst(c, terms, depth) for c in e.children()])
        if z3.is_or(e):
            return z3.Or(*[inst(c, terms, depth) for c in e.children()])
        return z3.BoolVal(True)   # quantifier below another connective: drop (sound weakening only in positive positions,
        #                           NNF guarantees this does not happen for and/or/not-atoms)

    cur = fs
    for rnd in range(rounds):
        need = set()
        for e in _walk(cur):
            if z3.is_quantifier(e):
                for i in range(e.num_vars()):
                    need.add(e.var_sort(i))
        terms = _ground_terms_by_sort(cur + (fs if rnd else []), need)
        fun_args = _ground_fun_args(cur + (fs if rnd else []))
        new = [z3.simplify(inst(f, terms, 0)) for f in fs]
        flat = []
        for f in new:
            if z3.is_true(f):
                continue
            if z3.is_and(f):
                flat.extend(f.children())
            else:
                flat.append(f)
        cur = flat
        if time.time() - t_start > budget_s:
            break
        # next round: instantiate the ORIGINAL formulas again with the (larger) term set of the current result
        if rnd < rounds - 1:
            cur = flat + [f for f in fs if has_q(f)]
    cur = [f for f in cur if not has_q(f)]
    seen, out2 = set(), []
    for f in cur:
        if f.get_id() not in seen:
            seen.add(f.get_id())
            out2.append(f)
    return out2


