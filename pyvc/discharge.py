"""Discharging obligations: z3 (python API) first, cvc5 takes z3's unknowns.  Parallel, per-obligation budgets."""
import concurrent.futures as cf
import multiprocessing
import os
import subprocess
import tempfile
import time

import z3

NCPU = int(os.environ.get("VERIF_JOBS", "0")) or min(16, os.cpu_count() or 4)


def _solve_z3(smt2, timeout_ms, seed=0, tactic=None):
    ctx = z3.Context()
    s = z3.Solver(ctx=ctx) if tactic is None else z3.Tactic(tactic, ctx=ctx).solver()
    s.set("timeout", int(timeout_ms))
    try:
        s.set("random_seed", seed)
    except z3.Z3Exception:
        pass
    s.from_string(smt2)
    t = time.time()
    try:
        r = s.check()
    except z3.Z3Exception as e:
        return "unknown", time.time() - t, "z3-exception:%s" % str(e)[:80]
    reason = ""
    if r == z3.unknown:
        try:
            reason = s.reason_unknown()
        except z3.Z3Exception:
            reason = "?"
    return str(r), time.time() - t, reason


def _solve_cvc5(smt2, timeout_ms):
    t = time.time()
    text = smt2
    if "(set-logic" not in text:
        text = "(set-logic ALL)\n" + text
    with tempfile.NamedTemporaryFile("w", suffix=".smt2", delete=False) as f:
        f.write(text)
        path = f.name
    try:
        p = subprocess.run(["/usr/bin/cvc5", "--tlimit=%d" % int(timeout_ms), "--fp-exp", path],
                           capture_output=True, text=True, timeout=timeout_ms / 1000.0 + 10)
        out = p.stdout.strip().splitlines()
        r = out[0].strip() if out else "unknown"
        if r not in ("sat", "unsat"):
            r = "unknown"
        return r, time.time() - t, (p.stderr or "")[:120]
    except (subprocess.TimeoutExpired, OSError) as e:
        return "unknown", time.time() - t, "cvc5:%s" % e
    finally:
        os.unlink(path)


def solve_one(job):
    idx, smt2, timeout_ms, use_cvc5 = job
    r, secs, reason = _solve_z3(smt2, timeout_ms)
    backend = "z3-%s" % z3.get_version_string()
    if r == "unknown":
        # second opinion(s): a different z3 seed, then cvc5
        r2, s2, reason2 = _solve_z3(smt2, timeout_ms, seed=17)
        secs += s2
        if r2 != "unknown":
            r, reason = r2, reason2
            backend += "(seed 17)"
        elif use_cvc5:
            r3, s3, reason3 = _solve_cvc5(smt2, timeout_ms)
            secs += s3
            if r3 != "unknown":
                r, reason, backend = r3, reason3, "cvc5-1.0.3"
    return idx, r, secs, backend, reason


def discharge(obligations, timeout_ms=30000, use_cvc5=True, jobs=None):
    """Fills ob.result / ob.seconds / ob.backend for every obligation."""
    jobs = jobs or NCPU
    work = []
    for i, ob in enumerate(obligations):
        g = z3.simplify(ob.goal)
        if z3.is_true(g):
            ob.result, ob.seconds, ob.backend = "unsat", 0.0, "simplifier"
            continue
        work.append((i, obligation_smt2(ob), timeout_ms, use_cvc5))
    if not work:
        return
    if len(work) == 1 or jobs == 1:
        results = [solve_one(w) for w in work]
    else:
        mp = multiprocessing.get_context("fork")
        with cf.ProcessPoolExecutor(max_workers=min(jobs, len(work)), mp_context=mp) as ex:
            results = list(ex.map(solve_one, work, chunksize=1))
    for idx, r, secs, backend, reason in results:
        ob = obligations[idx]
        ob.result, ob.seconds, ob.backend = r, secs, backend
        ob.info["reason"] = reason


def obligation_smt2(ob, ack=True):
    fs = list(ob.pc) + [z3.Not(ob.goal)]
    if ack:
        fs = ackermannize(fs)
    s = z3.Solver()
    for f in fs:
        s.add(f)
    return s.to_smt2()


def get_model(ob, timeout_ms=30000, extra=()):
    """Re-solve a failed obligation in this process to obtain a model (z3)."""
    s = z3.Solver()
    s.set("timeout", int(timeout_ms))
    for p in ob.pc:
        s.add(p)
    s.add(z3.Not(ob.goal))
    if extra:
        s.push()
        for e in extra:
            s.add(e)
        if s.check() == z3.sat:
            return s.model()
        s.pop()
    if s.check() == z3.sat:
        return s.model()
    return None


# ----------------------------------------------------------------------------------------- preprocessing
def _walk(fs):
    seen, stack, order = set(), list(fs), []
    while stack:
        e = stack.pop()
        i = e.get_id()
        if i in seen:
            continue
        seen.add(i)
        order.append(e)
        if z3.is_quantifier(e):
            stack.append(e.body())
        else:
            stack.extend(e.children())
    return order


def _contains_var(e, cache):
    i = e.get_id()
    if i in cache:
        return cache[i]
    if z3.is_var(e):
        r = True
    elif z3.is_quantifier(e):
        r = True   # conservative
    else:
        r = any(_contains_var(c, cache) for c in e.children())
    cache[i] = r
    return r


def ackermannize(formulas, rounds=4):
    """Replace reads ``A[t]`` of array *constants* that are only ever read at ground indices by fresh constants
    plus the congruence axioms (Ackermann's reduction; equisatisfiable).  z3's combination of the array/UF
    theory with mixed integer-real arithmetic is incomplete on our heap reads; the reduction makes those
    obligations plain LIRA."""
    fs = [z3.simplify(f) for f in formulas]
    n_fresh = [0]
    for _ in range(rounds):
        nodes = _walk(fs)
        varcache = {}
        reads = {}      # array const id -> list of select terms
        bad = set()
        consts = {}
        for e in nodes:
            if z3.is_quantifier(e) or not z3.is_app(e):
                continue
            if z3.is_select(e) and z3.is_const(e.arg(0)) and e.arg(0).decl().kind() == z3.Z3_OP_UNINTERPRETED:
                a = e.arg(0)
                consts[a.get_id()] = a
                if _contains_var(e.arg(1), varcache):
                    bad.add(a.get_id())
                else:
                    reads.setdefault(a.get_id(), []).append(e)
                # the index may itself mention arrays
                children = [e.arg(1)]
            else:
                children = e.children()
            for c in children:
                if z3.is_const(c) and z3.is_array(c) and c.decl().kind() == z3.Z3_OP_UNINTERPRETED \
                        and not (z3.is_select(e) and c.eq(e.arg(0)) and False):
                    # array constant used other than as the array operand of a select
                    if not (z3.is_select(e) and e.arg(0).eq(c)) or (z3.is_select(e) and e.arg(1).eq(c)):
                        bad.add(c.get_id())
        # an array const also occurring under a quantifier body as non-read is caught above; occurrences inside
        # quantifier bodies are walked too (bodies contain vars -> reads at var indices mark it bad)
        todo = [aid for aid in reads if aid not in bad]
        if not todo:
            break
        subs, extra = [], []
        for aid in todo:
            sels = reads[aid]
            fresh = []
            for s in sels:
                n_fresh[0] += 1
                c = z3.Const("%s@%d" % (consts[aid].decl().name(), n_fresh[0]), s.sort())
                fresh.append(c)
                subs.append((s, c))
            for i in range(len(sels)):
                for j in range(i + 1, len(sels)):
                    extra.append(z3.Implies(sels[i].arg(1) == sels[j].arg(1), fresh[i] == fresh[j]))
        # substitute innermost-last: z3.substitute handles simultaneous substitution of distinct terms
        fs = [z3.substitute(f, *subs) for f in fs] + [z3.substitute(x, *subs) for x in extra]
        fs = [z3.simplify(f) for f in fs]
    return fs
