"""Statement execution: assignments, control flow, loops cut by invariants, exceptions."""
import ast

import z3

from .core import (REG, RefV, Ty, VerifError, PathEnd, Infeasible, T_INT, T_FLOAT, T_ANY, sort_of, type_of_value)
from .values import (FuncV, BuiltinV, ExcV, RangeV, EnumV, ZipV, GenV, ReturnSig, RaiseSig, BreakSig, ContinueSig)
from .loader import strip_docstring


def assigned_names(stmts):
    out = set()

    class V(ast.NodeVisitor):
        def visit_Name(self, n):
            if isinstance(n.ctx, (ast.Store, ast.Del)):
                out.add(n.id)

        def visit_FunctionDef(self, n):
            pass

        def visit_Lambda(self, n):
            pass

        def visit_ListComp(self, n):
            pass

        def visit_GeneratorExp(self, n):
            pass
    for s in stmts:
        V().visit(s)
    return out


class StmtMixin(object):
    def exec_block(self, stmts):
        for s in stmts:
            self.exec_stmt(s)

    def exec_stmt(self, s):
        m = getattr(self, "st_" + type(s).__name__, None)
        if m is None:
            raise VerifError("statement %s unsupported" % type(s).__name__)
        self.cur_line = getattr(s, "lineno", 0)
        return m(s)

    def st_Pass(self, s):
        pass

    def st_Expr(self, s):
        if isinstance(s.value, ast.Constant):
            return
        self.ev(s.value, False)

    def st_Return(self, s):
        raise ReturnSig(self.ev(s.value, False) if s.value is not None else None)

    def st_Assign(self, s):
        v = self.ev(s.value, False)
        for t in s.targets:
            self.assign(t, v)

    def st_AnnAssign(self, s):
        if s.value is not None:
            self.assign(s.target, self.ev(s.value, False))

    def st_AugAssign(self, s):
        op = {ast.Add: "+", ast.Sub: "-", ast.Mult: "*", ast.Div: "/", ast.FloorDiv: "//", ast.Mod: "%"}.get(type(s.op))
        if op is None:
            raise VerifError("augmented operator")
        load = ast.fix_missing_locations(ast.copy_location(self._as_load(s.target), s.target))
        cur = self.ev(load, False)
        rhs = self.ev(s.value, False)
        if isinstance(cur, tuple) and isinstance(rhs, tuple) and op == "+":
            self.assign(s.target, cur + rhs)
            return
        if isinstance(cur, RefV) and cur.ty.base.kind == "ref" and op in ("+", "-"):
            # x += y on an object without __iadd__ is x = x.__add__(y)
            info = self.class_by_name(cur.ty.base.name)
            owner, fn = info.find_method({"+": "__add__", "-": "__sub__"}[op]) if info else (None, None)
            if fn is not None:
                self.assign(s.target, self.call_value(FuncV(owner.module, owner, fn, cur, info), [rhs], {}, False))
                return
        self.assign(s.target, self.arith(op, cur, rhs, False))

    def _as_load(self, t):
        if isinstance(t, ast.Name):
            return ast.Name(id=t.id, ctx=ast.Load())
        if isinstance(t, ast.Attribute):
            return ast.Attribute(value=t.value, attr=t.attr, ctx=ast.Load())
        if isinstance(t, ast.Subscript):
            return ast.Subscript(value=t.value, slice=t.slice, ctx=ast.Load())
        raise VerifError("augmented target")

    def assign(self, target, v):
        ctx = self.ctx
        if isinstance(target, ast.Name):
            if isinstance(v, GenV):
                raise VerifError("generator bound to a name")
            self.frame.env[target.id] = v
            return
        if isinstance(target, (ast.Tuple, ast.List)):
            items = self.iter_concrete(v)
            if len(items) != len(target.elts):
                raise VerifError("unpacking arity")
            for t, x in zip(target.elts, items):
                self.assign(t, x)
            return
        if isinstance(target, ast.Attribute):
            base = self.ev(target.value, False)
            if isinstance(base, RefV) and base.ty.base.kind == "ref":
                fty = self.field_type_for(base, target.attr)
                if fty is None:
                    fty = type_of_value(v)
                    if fty.kind == "opt" and fty.args[0].kind == "any":
                        raise VerifError("field %s.%s first assigned None: declare its type" % (base.ty.base.name, target.attr))
                    REG.fields[(base.ty.base.name, target.attr)] = fty
                    REG.any_field[target.attr] = fty
                    self.explorer.auto_fields.add("%s.%s:%r" % (base.ty.base.name, target.attr, fty))
                if isinstance(v, (FuncV, BuiltinV)):
                    raise VerifError("method rebinding %s" % target.attr)
                ctx.write_field(base, target.attr, fty, self.coerce(v, fty))
                self.note_write(("field", target.attr))
                return
            raise VerifError("attribute store on %r" % (base,))
        if isinstance(target, ast.Subscript):
            base = self.ev(target.value, False)
            idx = self.ev(target.slice, False)
            if isinstance(base, RefV) and base.ty.base.kind == "list":
                n = ctx.list_len(base)
                I = self.Z(idx)
                if isinstance(idx, int) and idx < 0:
                    I = n + idx
                self.oblige("no-IndexError", z3.And(0 <= I, I < n), kind="safety")
                ctx.list_set(base, I, self.coerce(v, base.ty.base.args[0]))
                self.note_write(("elems",))
                return
            if isinstance(base, RefV) and base.ty.base.kind == "dict":
                self.dict_set(base, idx, v)
                return
            raise VerifError("subscript store on %r" % (base,))
        raise VerifError("assignment target %s" % type(target).__name__)

    def coerce(self, v, ty):
        if ty.kind == "float" and (isinstance(v, (int, float)) or (z3.is_expr(v) and v.sort() == z3.IntSort())):
            return self.ctx.to_float(v)
        return v

    def note_write(self, what):
        pass

    def st_Delete(self, s):
        for t in s.targets:
            if isinstance(t, ast.Name):
                self.frame.env.pop(t.id, None)
            elif isinstance(t, ast.Subscript):
                base = self.ev(t.value, False)
                if isinstance(base, RefV) and base.ty.base.kind == "dict":
                    self.dict_del(base, self.ev(t.slice, False))
                else:
                    raise VerifError("del on %r" % (base,))
            else:
                raise VerifError("del target")

    def st_If(self, s):
        c = self.as_bool_term(self.ev(s.test, False))
        d = c if isinstance(c, bool) else self.ctx.branch(c)
        self.exec_block(s.body if d else s.orelse)

    def st_Assert(self, s):
        c = self.as_bool_term(self.ev(s.test, False))
        fr = self.frame
        if fr.contract is not None and fr.contract.leading_asserts == "requires" and fr.leading:
            self.ctx.assume(c)
            self.explorer.assumed_asserts.add("%s:%d" % (fr.fn.name, s.lineno - fr.fn.lineno))
            return
        rc = self.root_contract
        if rc is not None and ("AssertionError" in rc.may_raise or "AssertionError" in rc.raises):
            # the contract allows (or specifies) an AssertionError: a failing assert is a raise, not an obligation
            ok = c if isinstance(c, bool) else self.ctx.branch(c)
            if not ok:
                raise RaiseSig(ExcV("AssertionError"))
            return
        self.oblige("assert:%s" % ast.unparse(s.test)[:60], c, kind="assert")

    def st_Raise(self, s):
        if s.exc is None:
            raise RaiseSig(self.cur_exc)
        v = self.ev(s.exc, False)
        if isinstance(v, BuiltinV) and v.name.startswith("exc:"):
            v = ExcV(v.name[4:])
        if isinstance(v, RefV):
            v = ExcV(v.ty.base.name)
        if not isinstance(v, ExcV):
            raise VerifError("raise of %r" % (v,))
        raise RaiseSig(v)

    def st_Try(self, s):
        if s.finalbody:
            raise VerifError("try/finally")
        try:
            self.exec_block(s.body)
        except RaiseSig as sig:
            for h in s.handlers:
                names = []
                if h.type is None:
                    names = ["Exception"]
                elif isinstance(h.type, ast.Tuple):
                    names = [ast.unparse(e).split(".")[-1] for e in h.type.elts]
                else:
                    names = [ast.unparse(h.type).split(".")[-1]]
                if sig.exc.name in names or "Exception" in names or "BaseException" in names:
                    if h.name:
                        self.frame.env[h.name] = sig.exc
                    saved = getattr(self, "cur_exc", None)
                    self.cur_exc = sig.exc
                    try:
                        self.exec_block(h.body)
                    finally:
                        self.cur_exc = saved
                    return
            raise
        else:
            self.exec_block(s.orelse)

    def st_Global(self, s):
        for n in s.names:
            self.frame.global_names.add(n)

    def st_Import(self, s):
        pass

    def st_ImportFrom(self, s):
        pass

    def st_Break(self, s):
        raise BreakSig()

    def st_Continue(self, s):
        raise ContinueSig()

    def st_FunctionDef(self, s):
        self.frame.env[s.name] = FuncV(self.frame.module, None, s)

    def st_With(self, s):
        raise VerifError("with statement")

    # ------------------------------------------------------------------------------------- loops
    def next_loop_spec(self):
        fr = self.frame
        k = fr.loop_ordinal
        fr.loop_ordinal += 1
        if fr.contract is not None and fr.is_contract_frame:
            return k, fr.contract.loops.get(k)
        if fr.fn is not None:
            q = self.frame_qualname(fr)
            for c in REG.contracts.values():
                if c.qualname == q and c.loops:
                    return k, c.loops.get(k)
        return k, None

    def st_While(self, s):
        k, spec = self.next_loop_spec()
        if spec is None or spec.unroll:
            bound = spec.unroll if spec else self.explorer.default_unroll
            self.unroll_while(s, bound, k)
            return
        self.cut_loop(s, spec, k, kind="while")

    def unroll_while(self, s, bound, k):
        saved_ord = self.frame.loop_ordinal
        for it in range(bound + 1):
            c = self.as_bool_term(self.ev(s.test, False))
            d = c if isinstance(c, bool) else self.ctx.branch(c)
            if not d:
                self.exec_block(s.orelse)
                return
            if it == bound:
                raise VerifError("while loop %d needs an invariant (unrolled %d times without termination)" % (k, bound))
            self.frame.loop_ordinal = saved_ord
            try:
                self.exec_block(s.body)
            except BreakSig:
                return
            except ContinueSig:
                pass

    def st_For(self, s):
        k, spec = self.next_loop_spec()
        it = self.ev(s.iter, False)
        if spec is None:
            items = self.iter_static(it)
            saved_ord = self.frame.loop_ordinal
            for x in items:
                self.assign(s.target, x)
                self.frame.loop_ordinal = saved_ord
                try:
                    self.exec_block(s.body)
                except BreakSig:
                    return
                except ContinueSig:
                    continue
            self.exec_block(s.orelse)
            return
        self.cut_loop(s, spec, k, kind="for", iterable=it)

    def iter_static(self, it):
        """Iterate an iterable of static length (concrete unrolling)."""
        if isinstance(it, EnumV):
            return [(i + it.start, x) for i, x in enumerate(self.iter_static(it.inner))]
        if isinstance(it, ZipV):
            parts = [self.iter_static(p) for p in it.parts]
            return list(zip(*parts))
        if isinstance(it, GenV):
            return self.gen_static(it)
        if isinstance(it, BuiltinV) and it.name in ("dict.keys", "dict.values", "dict.items"):
            raise VerifError("iteration over dict needs a loop invariant")
        return self.iter_concrete(it)

    def iter_len_get(self, it):
        """(length term, getter(index term) -> value) for a symbolic-length iterable."""
        ctx = self.ctx
        if isinstance(it, RangeV):
            if it.step != 1:
                raise VerifError("range step != 1 in invariant loop")
            lo, hi = self.Z(it.lo), self.Z(it.hi)
            n = z3.If(hi >= lo, hi - lo, 0)
            return n, (lambda i: lo + i)
        if isinstance(it, EnumV):
            n, g = self.iter_len_get(it.inner)
            return n, (lambda i: (i + it.start, g(i)))
        if isinstance(it, ZipV):
            subs = [self.iter_len_get(p) for p in it.parts]
            n = subs[0][0]
            for m, _ in subs[1:]:
                n = z3.If(m < n, m, n)
            return n, (lambda i: tuple(g(i) for _, g in subs))
        if isinstance(it, RefV) and it.ty.base.kind == "list":
            n = ctx.list_len(it)

            def g(i):
                v = ctx.list_get(it, i)
                if isinstance(v, RefV):
                    ctx.assume_ref_typed(v)
                return v
            return n, g
        if isinstance(it, tuple):
            return len(it), (lambda i: self.index_value(it, i, True))
        raise VerifError("cannot iterate %r symbolically" % (it,))

    def cut_loop(self, s, spec, k, kind, iterable=None):
        ctx, fr = self.ctx, self.frame
        fname = fr.fn.name if fr.fn is not None else "?"
        base = "%s/loop%d" % (fname, k)
        idx_name = spec.index or "_i"
        if kind == "for":
            n, getter = self.iter_len_get(iterable)
            # natural index variable of enumerate(...)
            if spec.index is None and isinstance(iterable, EnumV) and isinstance(s.target, ast.Tuple) \
                    and isinstance(s.target.elts[0], ast.Name) and iterable.start == 0:
                idx_name = s.target.elts[0].id
            fr.env[idx_name] = 0
            fr.env["_n"] = n
        inv_nodes = [ast.parse(t, mode="eval").body for t in spec.invariant]

        def check_inv(tag):
            for t, node in zip(spec.invariant, inv_nodes):
                self.oblige("%s/%s:%s" % (base, tag, t[:70]), self.as_bool_term(self.ev(node, True)), kind="invariant")

        check_inv("inv-entry")
        choice = ctx.choose(2)
        # havoc
        targets = assigned_names(s.body) | (assigned_names([s.target]) if kind == "for" else set())
        for name in sorted(targets):
            if name in fr.env and name != idx_name:
                old = fr.env[name]
                fr.env[name] = self.havoc_value(name, old)
        if kind == "for":
            i = ctx.fresh("i$" + idx_name, z3.IntSort())
            fr.env[idx_name] = i
            ctx.assume(z3.And(0 <= i, i <= n if z3.is_expr(n) else i <= z3.IntVal(n)))
        self.havoc_modifies(spec.modifies)
        for node in inv_nodes:
            ctx.assume(self.as_bool_term(self.ev(node, True)))
        variant0 = self.ev(ast.parse(spec.variant, mode="eval").body, True) if spec.variant else None
        if choice == 0:
            # an arbitrary iteration
            if kind == "while":
                c = self.as_bool_term(self.ev(s.test, False))
                if isinstance(c, bool):
                    if not c:
                        raise Infeasible()
                else:
                    ctx.assume(c)
            else:
                ctx.assume(fr.env[idx_name] < n)
                self.assign(s.target, getter(fr.env[idx_name]))
            try:
                self.exec_block(s.body)
            except ContinueSig:
                pass
            except BreakSig:
                return
            if kind == "for":
                fr.env[idx_name] = fr.env[idx_name] + 1
            check_inv("inv-preserved")
            if variant0 is not None:
                v1 = self.ev(ast.parse(spec.variant, mode="eval").body, True)
                self.oblige("%s/variant-decreases" % base, z3.And(self.Z(v1) < self.Z(variant0), self.Z(variant0) >= 0),
                            kind="variant")
            raise PathEnd()
        # exit path
        if kind == "while":
            c = self.as_bool_term(self.ev(s.test, False))
            if isinstance(c, bool):
                if c:
                    raise Infeasible()
            else:
                ctx.assume(z3.Not(c))
        else:
            ctx.assume(fr.env[idx_name] == n)
        self.exec_block(s.orelse)

    def havoc_value(self, name, old):
        ctx = self.ctx
        if isinstance(old, RefV):
            v = RefV(ctx.fresh("hv$" + name, z3.IntSort()), old.ty)
            ctx.assume_ref_typed(v)
            return v
        if isinstance(old, tuple):
            return tuple(self.havoc_value("%s.%d" % (name, i), x) for i, x in enumerate(old))
        if old is None:
            raise VerifError("loop variable %s is None before the loop: cannot infer its sort" % name)
        if isinstance(old, (FuncV, BuiltinV)):
            return old
        t = self.Z(old) if not isinstance(old, str) else None
        if t is None:
            return old
        v = ctx.fresh("hv$" + name, t.sort())
        if t.sort() == ctx.num.sort:
            ctx.assume(ctx.num.typing_assumption(v))
        return v

    def havoc_modifies(self, items):
        """items: 'x.f' (one location), 'elems(x)' / 'contents(x)' (list x), 'dictof(d)', 'ALL.f' (whole field).
        All targets are resolved in the state BEFORE anything is havocked."""
        ctx = self.ctx
        todo = []
        fresh_refs = []     # new values of reference fields: the caller bounds them by the watermark AFTER the callee
        for it in items:
            node = ast.parse(it, mode="eval").body
            if isinstance(node, ast.Call) and isinstance(node.func, ast.Name) and node.func.id == "allcontents":
                # allcontents(float): the elements of EVERY list of floats (lengths stay)
                from .core import parse_type
                todo.append(("allcontents", parse_type(node.args[0].id)))
            elif isinstance(node, ast.Call) and isinstance(node.func, ast.Name) and node.func.id in ("elems", "contents"):
                lst = self.ev(node.args[0], True)
                todo.append((node.func.id, lst))
            elif isinstance(node, ast.Call) and isinstance(node.func, ast.Name) and node.func.id == "dictof":
                todo.append(("dict", self.ev(node.args[0], True)))
            elif isinstance(node, ast.Attribute):
                if isinstance(node.value, ast.Name) and node.value.id == "ALL":
                    todo.append(("all", node.attr))
                else:
                    obj = self.ev(node.value, True)
                    fty = self.field_type_for(obj, node.attr)
                    if fty is None:
                        raise VerifError("modifies %s: undeclared field" % it)
                    todo.append(("field", obj, node.attr, fty))
            else:
                raise VerifError("modifies item %r" % it)
        for t in todo:
            if t[0] in ("elems", "contents"):
                lst = t[1]
                if lst is None:
                    continue
                ety = lst.ty.base.args[0]
                ctx.set_list_arr(lst, ety, ctx.fresh("hv$elems", z3.ArraySort(z3.IntSort(), sort_of(ety, ctx.num))))
                if t[0] == "elems":
                    nl = ctx.fresh("hv$len", z3.IntSort())
                    ctx.assume(nl >= 0)
                    ctx.set_list_len(lst, nl)
            elif t[0] == "allcontents":
                key = ctx._el_key(t[1])
                srt = z3.ArraySort(z3.IntSort(), z3.ArraySort(z3.IntSort(), sort_of(t[1], ctx.num)))
                ctx.heap_get(key, lambda: srt)
                ctx.heap[key] = ctx.fresh("hv$allcontents", srt)
            elif t[0] == "dict":
                self.dict_havoc(t[1])
            elif t[0] == "all":
                key = ctx.field_key(t[1])
                if key not in ctx.heap:
                    fty = REG.any_field.get(t[1])
                    if fty is None:
                        raise VerifError("modifies ALL.%s: unknown field" % t[1])
                    ctx.heap_get(key, lambda: z3.ArraySort(z3.IntSort(), sort_of(fty, ctx.num)))
                ctx.heap[key] = ctx.fresh("hv$" + t[1], ctx.heap[key].sort())
            else:
                _, obj, attr, fty = t
                nv = ctx.fresh_of_type("hv$" + attr, fty)
                ctx.write_field(obj, attr, fty, nv)
                if isinstance(nv, RefV):
                    fresh_refs.append(nv)
        return fresh_refs
