"""Models of the Python builtins / stdlib functions the verified code uses."""
import ast

import z3

from .core import (REG, RefV, Ty, VerifError, T_INT, T_FLOAT, T_BOOL, T_ANY, sort_of, type_of_value)
from .values import (FuncV, BuiltinV, ClassV, ModuleV, LambdaV, ExcV, RangeV, EnumV, ZipV, GenV, Frame, RaiseSig)
from .interp_expr import is_z3, is_intlike


class BuiltinMixin(object):
    def call_builtin(self, f, args, kwargs, spec):
        name = f.name
        ctx, num = self.ctx, self.ctx.num
        if name.startswith("spec:"):
            return self.call_spec(name[5:], args)
        if name.startswith("exc:"):
            return ExcV(name[4:], tuple(args))
        if name.startswith("clib:"):
            _, relpath, fname = name.split(":")
            from .cfront import CFront
            return CFront(self).call_from_python(relpath, fname, args)
        if name == "callfield":
            # callable[ufunc name]: the stored callable is a pure function of (owner, arguments); callable[float]: any value
            fty, owner = f.recv
            rt = fty.args[0] if fty.args else T_ANY
            if rt.kind == "ref" and rt.name in REG.ufuncs:
                return self.call_ufunc(rt.name, [owner] + list(args))
            return self.fresh_result_value(rt)
        if name == "ffi.new_handle":
            return args[0]
        if name == "ffi.from_handle":
            h = args[0]
            isnull = self.as_bool_term(self.identical(h, None))
            d = isnull if isinstance(isnull, bool) else ctx.branch(isnull)
            if d:
                raise RaiseSig(ExcV("RuntimeError"))
            return h
        if name == "ffi.gc":
            return args[0]
        if name == "noop" or name.startswith("logging.") or name.startswith("noop-obj") or name == "print" \
                or name.startswith("warnings."):
            return BuiltinV("noop-obj")
        if name.startswith("str."):
            return "<str>"
        if name == "str" or name == "repr":
            return "<str>"
        if name == "len":
            v = args[0]
            if isinstance(v, (tuple, str)):
                return len(v)
            if isinstance(v, RefV) and v.ty.base.kind == "list":
                n = z3.simplify(ctx.list_len(v))
                return n.as_long() if z3.is_int_value(n) else n
            raise VerifError("len of %r" % (v,))
        if name == "range":
            if len(args) == 1:
                return RangeV(0, args[0])
            if len(args) == 2:
                return RangeV(args[0], args[1])
            return RangeV(*args)
        if name == "enumerate":
            return EnumV(args[0], args[1] if len(args) > 1 else kwargs.get("start", 0))
        if name == "zip":
            return ZipV(list(args))
        if name == "abs":
            return self.call_spec("abs", args)
        if name in ("min", "max"):
            if len(args) == 2 and "key" not in kwargs:
                a, b = args
                c = self.as_bool_term(self.compare("<" if name == "min" else ">", b, a, spec))
                if isinstance(c, bool):
                    return b if c else a
                if spec:
                    return self.ite(c, b, a)
                return b if ctx.branch(c) else a
            if len(args) == 1 and "key" not in kwargs:
                items = self.iter_static(args[0])
                if not items:
                    raise RaiseSig(ExcV("ValueError"))
                r = items[0]
                for x in items[1:]:
                    r = self.call_builtin(BuiltinV(name), [r, x], {}, spec)
                return r
            if len(args) == 1 and "key" in kwargs and isinstance(args[0], RefV) and args[0].ty.base.kind == "list" and not spec:
                return self.min_with_key(name, args[0], kwargs["key"])
            raise VerifError("%s with key / many arguments" % name)
        if name == "divmod":
            a, b = args
            if is_intlike(a) and is_intlike(b):
                return (self.arith("//", a, b, spec), self.arith("%", a, b, spec))
            if not spec:
                self.oblige("no-ZeroDivisionError", num.ne(ctx.to_float(b), num.const(0.0)), kind="safety")
            q, m = self.float_divmod(ctx.to_float(a), ctx.to_float(b), spec)
            return (q, m)
        if name == "int":
            v = args[0]
            if isinstance(v, int):
                return int(v)
            if is_intlike(v):
                return v
            if is_z3(v) and v.sort() == z3.BoolSort():
                return z3.If(v, 1, 0)
            x = ctx.to_float(v)
            if not spec:
                self.oblige("no-OverflowError:int(inf/nan)", z3.And(z3.Not(num.isinf(x)), z3.Not(num.isnan(x))),
                            kind="safety")
            return num.trunc_to_int(x)
        if name == "float":
            v = args[0]
            if isinstance(v, str):
                return num.const(float(v))
            return ctx.to_float(v)
        if name == "bool":
            return self.as_bool_term(args[0])
        if name == "isinstance":
            v, c = args
            if isinstance(v, RefV) and isinstance(c, ClassV):
                info = self.class_by_name(v.ty.base.name)
                return info is not None and info.is_subclass_of(c.info.name)
            raise VerifError("isinstance")
        if name == "tuple":
            if not args:
                return ()
            return tuple(self.iter_static(args[0]))
        if name == "list":
            if not args:
                return ctx.new_list(T_ANY, [])
            items = self.iter_static(args[0])
            return ctx.new_list(self.join_types([type_of_value(x) for x in items]) if items else T_ANY, items)
        if name == "dict":
            return self.new_dict(T_ANY, T_ANY)
        if name == "sum":
            return self.builtin_sum(args, spec)
        if name in ("all", "any"):
            items = self.iter_static(args[0])
            if spec:
                return self.and_(items) if name == "all" else self.or_(items)
            for x in items:
                t = self.as_bool_term(x)
                d = t if isinstance(t, bool) else ctx.branch(t)
                if name == "all" and not d:
                    return False
                if name == "any" and d:
                    return True
            return name == "all"
        if name == "object.__ne__":
            return self.neg(self.as_bool_term(self.compare("==", f.recv, args[0], spec)))
        if name == "id":
            return args[0].term
        if name == "type":
            if isinstance(args[0], RefV):
                return ClassV(self.class_by_name(args[0].ty.base.name))
        # ---- math
        if name == "math.isinf":
            return num.isinf(ctx.to_float(args[0]))
        if name == "math.isnan":
            return num.isnan(ctx.to_float(args[0]))
        if name == "math.sqrt":
            x = ctx.to_float(args[0])
            if not spec:
                neg = num.lt(x, num.const(0.0))
                if ctx.branch(neg):
                    raise RaiseSig(ExcV("ValueError"))
            return self.sqrt_value(x, spec)
        if name == "math.floor":
            return num.trunc_to_int(num.floor(ctx.to_float(args[0])))
        if name == "math.fabs":
            return num.abs(ctx.to_float(args[0]))
        if name == "math.copysign":
            a, b = ctx.to_float(args[0]), ctx.to_float(args[1])
            if num.name == "R":
                return z3.If(b >= 0, num.abs(a), -num.abs(a))
        if name in ("math.exp", "math.cos", "math.sin", "math.acos", "math.erfc", "math.log", "math.atan2",
                    "math.pow", "math.fmod"):
            fn = z3.Function("%s$%s" % (name.replace(".", "_"), num.name), *([num.sort] * (len(args) + 1)))
            ctx.notes.append("%s is uninterpreted" % name)
            return fn(*[ctx.to_float(a) for a in args])
        # ---- random
        if name == "random.uniform":
            lo, hi = ctx.to_float(args[0]), ctx.to_float(args[1])
            u = ctx.fresh("uniform", num.sort)
            ctx.assume(z3.Or(z3.And(num.le(lo, u), num.le(u, hi)), z3.And(num.le(hi, u), num.le(u, lo))))
            ctx.draws.append(("uniform", u))
            return u
        if name == "random.random":
            u = ctx.fresh("random", num.sort)
            ctx.assume(z3.And(num.le(num.const(0.0), u), num.lt(u, num.const(1.0))))
            ctx.draws.append(("random", u))
            return u
        if name == "random.expovariate":
            u = ctx.fresh("expovariate", num.sort)
            ctx.assume(num.ge(u, num.const(0.0)))
            ctx.draws.append(("expovariate", u))
            return u
        if name == "random.choice":
            seq = args[0]
            i = ctx.fresh("choice", z3.IntSort())
            n = self.call_builtin(BuiltinV("len"), [seq], {}, spec)
            self.oblige("no-IndexError:choice-of-empty", self.Z(n) > 0, kind="safety")
            ctx.assume(z3.And(0 <= i, i < self.Z(n)))
            ctx.draws.append(("choice", i))
            return self.index_value(seq, i, True)
        if name == "random.randint":
            lo, hi = self.Z(args[0]), self.Z(args[1])
            i = ctx.fresh("randint", z3.IntSort())
            ctx.assume(z3.And(lo <= i, i <= hi))
            ctx.draws.append(("randint", i))
            return i
        # ---- copy
        if name in ("copy.copy", "list.copy"):
            v = f.recv if name == "list.copy" else args[0]
            return self.shallow_copy(v)
        # ---- list methods
        if name.startswith("list."):
            return self.list_method(name[5:], f.recv, args, spec)
        if name.startswith("dict."):
            return self.dict_method(name[5:], f.recv, args, spec)
        if name.startswith("tuple."):
            raise VerifError("tuple method %s" % name)
        if name == "sys.exit":
            raise RaiseSig(ExcV("SystemExit"))
        if name == "hasattr" or name == "getattr":
            raise VerifError("reflection (%s)" % name)
        raise VerifError("builtin %s not modelled" % name)

    def min_with_key(self, name, lst, key):
        """min/max(list, key=f): the FIRST element whose key is not exceeded by any other (CPython semantics)."""
        ctx = self.ctx
        n = ctx.list_len(lst)
        if ctx.branch(n == 0):
            raise RaiseSig(ExcV("ValueError"))
        i = ctx.fresh("argmin", z3.IntSort())
        j = z3.Int("j!q%d" % self.explorer.next_id())
        op = "<" if name == "min" else ">"

        def k(idx):
            return self.call_value(key, [ctx.list_get(lst, idx)], {}, True)
        better_than_i = self.as_bool_term(self.compare(op, k(j), k(i), True))
        i_better_than_j = self.as_bool_term(self.compare(op, k(i), k(j), True))
        ctx.assume(z3.And(0 <= i, i < n))
        ctx.assume(z3.ForAll([j], z3.Implies(z3.And(0 <= j, j < n), z3.Not(better_than_i))))
        ctx.assume(z3.ForAll([j], z3.Implies(z3.And(0 <= j, j < i), i_better_than_j)))
        v = ctx.list_get(lst, i)
        if isinstance(v, RefV):
            ctx.assume_ref_typed(v)
        return v

    def shallow_copy(self, v):
        ctx = self.ctx
        if isinstance(v, tuple) or v is None or not isinstance(v, RefV):
            return v
        b = v.ty.base
        if b.kind == "list":
            new = ctx.alloc(Ty("list", list(b.args)))
            ctx.set_list_len(new, ctx.list_len(v))
            ctx.set_list_arr(new, b.args[0], ctx.list_arr(v, b.args[0]))
            return new
        if b.kind == "ref":
            # copy.copy of a plain object (no __copy__/__reduce__/__getstate__/__slots__ in its class - checked natively by
            # the caller's sidecar note): a fresh object of the same class with the same field values
            from .core import REG
            fields = [(f, fty) for (cn, f), fty in list(REG.fields.items()) if cn == b.name]
            if fields:
                new = ctx.alloc(Ty("ref", name=b.name))
                for f, fty in fields:
                    ctx.write_field(new, f, fty, ctx.read_field(v, f, fty))
                return new
        raise VerifError("copy of %r" % (v,))

    def list_method(self, m, lst, args, spec):
        ctx = self.ctx
        ety = lst.ty.base.args[0]
        n = ctx.list_len(lst)
        if m == "append":
            if spec:
                raise VerifError("append in spec")
            v = args[0]
            if ety.kind == "any" and not isinstance(v, (RefV, int, tuple, str)) and not is_intlike(v):
                raise VerifError("append of %r to an untyped list (declare the element type)" % (v,))
            ctx.list_set(lst, n, self.coerce(v, ety))
            ctx.set_list_len(lst, z3.simplify(n + 1))
            return None
        if m == "pop":
            if args:
                raise VerifError("list.pop(i)")
            self.oblige("no-IndexError:pop-from-empty", n > 0, kind="safety")
            v = ctx.list_get(lst, n - 1)
            if isinstance(v, RefV):
                ctx.assume_ref_typed(v)
            ctx.set_list_len(lst, z3.simplify(n - 1))
            return v
        if m == "index" or m == "remove":
            # first index holding an equal element, ValueError if none
            item = args[0]
            i = ctx.fresh("idx", z3.IntSort())
            j = z3.Int("j!q%d" % self.explorer.next_id())

            def eq_at(k):
                return self.as_bool_term(self.compare("==", ctx.list_get(lst, k), item, True))
            present = z3.Exists([j], z3.And(0 <= j, j < n, eq_at(j)))
            if not ctx.branch(present):
                raise RaiseSig(ExcV("ValueError"))
            ctx.assume(z3.And(0 <= i, i < n, eq_at(i), z3.ForAll([j], z3.Implies(z3.And(0 <= j, j < i), z3.Not(eq_at(j))))))
            if m == "index":
                return i
            inner = ctx.list_arr(lst, ety)
            new = ctx.fresh("removed", inner.sort())
            ctx.assume(z3.ForAll([j], z3.Implies(z3.And(0 <= j, j < n - 1),
                                                 z3.Select(new, j) == z3.If(j < i, z3.Select(inner, j), z3.Select(inner, j + 1)))))
            ctx.set_list_arr(lst, ety, new)
            ctx.set_list_len(lst, z3.simplify(n - 1))
            return None
        raise VerifError("list.%s not modelled" % m)

    def dict_method(self, m, d, args, spec):
        ctx = self.ctx
        if m == "keys":
            return BuiltinV("dict.keys", d)
        if m == "get":
            k = args[0]
            default = args[1] if len(args) > 1 else None
            has = self.dict_has(d, k)
            v = self.dict_get(d, k, True)
            if spec:
                return self.ite(has, v, default)
            return v if ctx.branch(has) else default
        if m == "setdefault":
            k, default = args
            if not ctx.branch(self.dict_has(d, k)):
                self.dict_set(d, k, default)
            return self.dict_get(d, k, True)
        if m == "copy":
            kk, vk, dom, val, kt, vt = self._dict_arrays(d)
            new = ctx.alloc(Ty("dict", [kt, vt]))
            ctx.heap[kk] = z3.Store(ctx.heap[kk], new.term, z3.Select(dom, d.term))
            ctx.heap[vk] = z3.Store(ctx.heap[vk], new.term, z3.Select(val, d.term))
            return new
        raise VerifError("dict.%s not modelled" % m)

    def builtin_sum(self, args, spec):
        it = args[0]
        try:
            items = self.iter_static(it)
        except VerifError:
            items = None
        if items is not None:
            total = args[1] if len(args) > 1 else 0
            for x in items:
                total = self.arith("+", total, x, spec)
            return total
        if isinstance(it, RefV) and it.ty.base.kind == "list" and it.ty.base.args[0].kind == "float":
            # prefix-sum function over the list contents; its recurrence is the axiom "psum" (see axioms.py)
            return self.call_ufunc("psum", [it, self.ctx.list_len(it)])
        raise VerifError("sum over a symbolic-length iterable that is not a list of floats")

    # ------------------------------------------------------------------ comprehensions
    def gen_static(self, g):
        node = g.node
        return self._comp_static(node.elt, node.generators, g.frame, g.env)

    def _comp_static(self, elt, gens, frame, env):
        out = []
        fr = Frame(frame.module, frame.owner, frame.dyn_cls, frame.self_val, dict(env), fn=frame.fn)
        fr.loop_ordinal = 10 ** 6
        self.frames.append(fr)
        try:
            def rec(k):
                if k == len(gens):
                    out.append(self.ev(elt, False))
                    return
                gen = gens[k]
                for x in self.iter_static(self.ev(gen.iter, False)):
                    self.assign(gen.target, x)
                    ok = True
                    for cond in gen.ifs:
                        t = self.as_bool_term(self.ev(cond, False))
                        d = t if isinstance(t, bool) else self.ctx.branch(t)
                        if not d:
                            ok = False
                            break
                    if ok:
                        rec(k + 1)
            rec(0)
        finally:
            self.frames.pop()
        return out

    def comprehension_filtered(self, node):
        """[elt for target in iterable if cond] over an iterable of symbolic length n: a fresh list r with
        0 <= len(r) <= n and a strictly increasing index map idx with  r[j] == elt(idx(j)),  cond(idx(j))  for every
        j < len(r), and every index satisfying cond is hit (the list is exactly the filtered sequence)."""
        ctx = self.ctx
        gen = node.generators[0]
        n, getter = self.iter_len_get(self.ev(gen.iter, False))
        nz = self.Z(n)
        i = z3.Int("k!q%d" % self.explorer.next_id())
        saved = dict(self.frame.env)
        try:
            # safety obligations of cond / elt for an arbitrary index
            probe_i = ctx.fresh("ci", z3.IntSort())
            ctx.assume(z3.And(0 <= probe_i, probe_i < nz))
            self.assign(gen.target, getter(probe_i))
            for c in gen.ifs:
                self.ev(c, False)
            probe = self.ev(node.elt, False)
            ety = type_of_value(probe)
            if isinstance(probe, tuple):
                ety = Ty("tuple", [type_of_value(x) for x in probe])
            self.assign(gen.target, getter(i))
            self.quant_depth = getattr(self, "quant_depth", 0) + 1
            try:
                cond = self.and_([self.as_bool_term(self.ev(c, True)) for c in gen.ifs])
                elt = ctx.unwrap(self.coerce(self.ev(node.elt, True), ety), ety)
            finally:
                self.quant_depth -= 1
        finally:
            self.frame.env.clear()
            self.frame.env.update(saved)
        cond = z3.BoolVal(cond) if isinstance(cond, bool) else cond
        k = self.explorer.next_id()
        idx = z3.Function("cidx!%d" % k, z3.IntSort(), z3.IntSort())
        j, j2 = z3.Int("j!q%d" % k), z3.Int("jj!q%d" % k)
        new = ctx.alloc(Ty("list", [ety]))
        nr = ctx.fresh("complen", z3.IntSort())
        inner = ctx.fresh("comp", z3.ArraySort(z3.IntSort(), sort_of(ety, ctx.num)))
        ctx.assume(z3.And(0 <= nr, nr <= nz))
        at = lambda t, jj: z3.substitute(t, (i, idx(jj)))
        ctx.assume(z3.ForAll([j], z3.Implies(z3.And(0 <= j, j < nr), z3.And(
            0 <= idx(j), idx(j) < nz, at(cond, j), z3.Select(inner, j) == at(elt, j))), patterns=[idx(j)]))
        ctx.assume(z3.ForAll([j, j2], z3.Implies(z3.And(0 <= j, j < j2, j2 < nr), idx(j) < idx(j2)),
                             patterns=[z3.MultiPattern(idx(j), idx(j2))]))
        # completeness: an index that satisfies the condition occurs in the result
        inv = z3.Function("cinv!%d" % k, z3.IntSort(), z3.IntSort())
        ctx.assume(z3.ForAll([i], z3.Implies(z3.And(0 <= i, i < nz, cond),
                                             z3.And(0 <= inv(i), inv(i) < nr, idx(inv(i)) == i)), patterns=[inv(i)]))
        ctx.set_list_len(new, nr)
        ctx.set_list_arr(new, ety, inner)
        return new

    def comprehension_list(self, node, spec):
        ctx = self.ctx
        if spec:
            raise VerifError("list comprehension in spec")
        try:
            items = self._comp_static(node.elt, node.generators, self.frame, self.frame.env)
            ety = self.join_types([type_of_value(x) for x in items]) if items else T_ANY
            return ctx.new_list(ety, [self.coerce(x, ety) for x in items])
        except VerifError as e:
            if "static length" not in str(e) and "symbolically" not in str(e):
                raise
        # symbolic length: [elt for target in iterable] with a pure element expression
        if len(node.generators) == 1 and node.generators[0].ifs:
            return self.comprehension_filtered(node)
        if len(node.generators) != 1:
            raise VerifError("symbolic comprehension with nesting")
        gen = node.generators[0]
        n, getter = self.iter_len_get(self.ev(gen.iter, False))
        i = z3.Int("k!q%d" % self.explorer.next_id())
        saved = dict(self.frame.env)
        try:
            self.assign(gen.target, getter(i))
            # safety obligations inside the element expression are generated for an arbitrary index
            probe_i = ctx.fresh("ci", z3.IntSort())
            ctx.assume(z3.And(0 <= probe_i, probe_i < self.Z(n)))
            self.assign(gen.target, getter(probe_i))
            probe = self.ev(node.elt, False)
            ety = type_of_value(probe)
            self.assign(gen.target, getter(i))
            elt = self.ev(node.elt, True)
        finally:
            self.frame.env.clear()
            self.frame.env.update(saved)
        new = ctx.alloc(Ty("list", [ety]))
        inner = ctx.fresh("comp", z3.ArraySort(z3.IntSort(), sort_of(ety, ctx.num)))
        ctx.assume(z3.ForAll([i], z3.Implies(z3.And(0 <= i, i < self.Z(n)),
                                             z3.Select(inner, i) == ctx.unwrap(self.coerce(elt, ety), ety))))
        ctx.set_list_len(new, self.Z(n))
        ctx.set_list_arr(new, ety, inner)
        return new
