# InversePowerPotential._displacement_repulsive over reals with uninterpreted power functions.
import time
from z3 import *
P = Function('P', RealSort(), RealSort())       # P(x)  = x ** (p/2)   for x > 0
Pi = Function('Pi', RealSort(), RealSort())     # Pi(y) = y ** (2/p)
sd, rho2, ck, dE, rt = Reals('sd rho2 ck dE rt')   # s_d, sum of other components squared, c*k (>0 repulsive), budget
x = Real('x'); y = Real('y')
def U(n2): return ck / P(n2)
n2 = rho2 + sd*sd
cur = U(n2); umax = U(rho2)
new_n2 = Pi(ck / (cur + dE))
# ground instances of the real-analysis axioms the sidecar would name
ax = [P(n2) > 0, P(rho2) > 0,
      P(new_n2) == ck/(cur + dE),                       # P(Pi(y)) = y, y > 0
      Implies(P(rho2) < P(new_n2), rho2 < new_n2),      # P strictly increasing (contrapositive instance)
      Implies(rho2 < n2, P(rho2) < P(n2)),
      Implies(new_n2 < n2, P(new_n2) < P(n2)), Implies(n2 <= new_n2, P(n2) <= P(new_n2))]
pre = [sd > 0, rho2 > 0, ck > 0, dE > 0, dE < umax - cur]
sq = [rt >= 0, rt*rt == new_n2 - rho2]
d = sd - rt
def chk(name, *fs):
    s = Solver(); s.set('timeout', 60000); s.add(*fs); t=time.time(); r=s.check(); print(name, 'PROVED' if r==unsat else r, '%.2fs'%(time.time()-t))
chk('sqrt arg >= 0', *pre, *ax, Not(new_n2 - rho2 >= 0))
chk('0 < d < sd', *pre, *ax, *sq, Not(And(d > 0, d <= sd)))
chk('energy identity', *pre, *ax, *sq, Not(U(rho2 + (sd - d)*(sd - d)) - cur == dE))
