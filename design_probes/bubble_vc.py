# Hand-written VC for heap.c bubble_down(): hole-walk invariant, formulated without subtree recursion
# (works for both callers: root() with p=1 and the Floyd heapify loop of delete_events()).
import time
from z3 import *
Q = Function('Q', IntSort(), IntSort(), RealSort()); R = Function('R', IntSort(), IntSort(), RealSort())
i, j = Ints('i j'); n, p, h, c = Ints('n p h c')           # n = heap->length, p = start position, h = hole
cq, cr = Reals('cq cr')                                     # cached entry (stored at index n)
def lt(q1,r1,q2,r2): return Or(q1 < q2, And(q1 == q2, r1 < r2))
def le(q1,r1,q2,r2): return Not(lt(q2,r2,q1,r1))
def ordered(v, j): return le(Q(v,j/2), R(v,j/2), Q(v,j), R(v,j))
def inv(v, h):
    return And(1 <= p, p <= h, h <= n,
        ForAll([j], Implies(And(2 <= j, j < n, j/2 >= p, j != h, j/2 != h), ordered(v, j))),
        Implies(And(h > p, h < n), And(le(Q(v,h/2), R(v,h/2), cq, cr),
                ForAll([j], Implies(And(2 <= j, j < n, j/2 == h), le(Q(v,h/2), R(v,h/2), Q(v,j), R(v,j)))))),
        Q(v,n) == cq, R(v,n) == cr)
pre = And(1 <= p, p <= n, ForAll([j], Implies(And(2 <= j, j < n, j/2 > p), ordered(1, j))), Q(1,n) == cq, R(1,n) == cr)
def check(name, *fs):
    s = Solver(); s.set('timeout', 120000); s.add(*fs); t=time.time(); r=s.check(); print(name, 'PROVED' if r==unsat else r, '%.1fs'%(time.time()-t))
check('init', pre, Not(inv(1, p)))
# one iteration with hole h < n: choose compare position exactly as the C code does
c1 = 2*h
first_smaller = And(c1 < n, lt(Q(1,c1), R(1,c1), cq, cr))
cmpq = If(first_smaller, Q(1,c1), cq); cmpr = If(first_smaller, R(1,c1), cr); cmp1 = If(first_smaller, c1, n)
second_smaller = And(c1 + 1 < n, lt(Q(1,c1+1), R(1,c1+1), cmpq, cmpr))
cmp2 = If(second_smaller, c1 + 1, cmp1)
body = And(c == cmp2, ForAll([i], Q(2,i) == If(i == h, Q(1,c), Q(1,i))), ForAll([i], R(2,i) == If(i == h, R(1,c), R(1,i))))
# case A: a child moves up, loop continues with hole c (< n)
check('preserve (child moves up)', inv(1,h), h < n, body, c < n, Not(inv(2, c)))
# case B: cached entry placed at h, loop exits (position = n): full order for all j with j/2 >= p
check('exit (cached placed)', inv(1,h), h < n, body, c == n,
      Not(ForAll([j], Implies(And(2 <= j, j < n, j/2 >= p), ordered(2, j)))))
# case C: loop never entered (h == n can only be the initial p == n)
check('bounds: all reads < n+1', inv(1,h), h < n, body, Not(And(0 <= c, c <= n, 0 <= h)))
