# Hand-written VC for the bubble-up loop of heap.c insert(): is the "heap with a hole" invariant,
# with a ghost bijection for multiset preservation, inductive and dischargeable by z3?
import time
from z3 import *
Q = Function('Q', IntSort(), IntSort(), RealSort())   # Q(version, i): quotient of entry i in array version v
R = Function('R', IntSort(), IntSort(), RealSort())
S = Function('S', IntSort(), IntSort(), IntSort())    # ghost: source index in the pre-state array (len-1 = the new element)
i, j, k = Ints('i j k')
length, pos, par = Ints('length pos par')
nq, nr = Reals('nq nr')
def lt(q1, r1, q2, r2): return Or(q1 < q2, And(q1 == q2, r1 < r2))
def le(q1, r1, q2, r2): return Not(lt(q2, r2, q1, r1))
def ltE(v, a, b): return lt(Q(v,a), R(v,a), Q(v,b), R(v,b))
def leE(v, a, b): return le(Q(v,a), R(v,a), Q(v,b), R(v,b))
def inv(v, pos):
    par = pos/2
    return And(
        1 <= pos, pos < length,
        # heap order except where the hole is the child
        ForAll([i], Implies(And(2 <= i, i < length, i != pos), Or(i/2 == pos, leE(v, i/2, i)))),
        # children of the hole are strictly larger than the new entry and >= parent of the hole
        ForAll([i], Implies(And(2 <= i, i < length, i/2 == pos), And(lt(nq, nr, Q(v,i), R(v,i)),
                                                                    Implies(pos >= 2, leE(v, pos/2, i))))),
        # ghost: S is injective on occupied positions (all but the hole) and avoids the new element's source index
        ForAll([i, j], Implies(And(1 <= i, i < length, 1 <= j, j < length, i != j, i != pos, j != pos), S(v,i) != S(v,j))),
        ForAll([i], Implies(And(1 <= i, i < length, i != pos), And(1 <= S(v,i), S(v,i) < length - 1,
                                                                    Q(v,i) == Q(0, S(v,i)), R(v,i) == R(0, S(v,i))))),
        # sentinel
        Q(v,0) == Q(0,0), R(v,0) == R(0,0))
sentinel = And(ForAll([i], Implies(And(1 <= i, i < length), lt(Q(0,0), R(0,0), Q(0,i), R(0,i)))), lt(Q(0,0), R(0,0), nq, nr))
# loop body: A[pos] = A[par]; pos = par   (version 1 -> version 2)
cond = lt(nq, nr, Q(1,pos/2), R(1,pos/2))
body = And(ForAll([i], Q(2,i) == If(i == pos, Q(1,pos/2), Q(1,i))),
           ForAll([i], R(2,i) == If(i == pos, R(1,pos/2), R(1,i))),
           ForAll([i], S(2,i) == If(i == pos, S(1,pos/2), S(1,i))))
def check(name, *fs):
    s = Solver(); s.set('timeout', 120000); s.add(*fs)
    t = time.time(); r = s.check(); print(name, 'PROVED' if r == unsat else r, '%.1fs' % (time.time()-t))
# preservation: inv(1,pos) & cond & body => inv(2,par)    (pos>=1; par>=1 follows from sentinel since cond false at par==0)
check('par>=1', inv(1,pos), sentinel, cond, pos/2 < 1)
check('preserve', inv(1,pos), sentinel, cond, body, Not(inv(2, pos/2)))
# exit: inv & !cond & store new at pos  => full heap order
post = And(ForAll([i], Q(3,i) == If(i == pos, nq, Q(1,i))), ForAll([i], R(3,i) == If(i == pos, nr, R(1,i))))
check('exit_heap_order', inv(1,pos), sentinel, Not(cond), post,
      Not(ForAll([i], Implies(And(2 <= i, i < length), leE(3, i/2, i)))))
