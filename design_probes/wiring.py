import configparser, glob, re, sys
def camel(s): return ''.join(p.capitalize() for p in s.split('_'))
CELL = ('cell_veto_tagger','cell_bounding_potential_tagger','excluded_cells_tagger','cell_boundary_tagger')
def reads(d):
    cls = d['cls']
    if cls == 'factor_type_map_in_state_tagger': return {'active'}
    if cls in CELL or cls == 'surplus_cells_tagger': return {'active','cell:'+d['label']}
    return set()
def affects(d, labels):
    ehc = d['ehc']
    if any(k in ehc for k in ('sampling','end_of_run','dumping')): return set()
    if 'cell_boundary' in ehc: return {'cell:'+d['label']}
    return {'active'} | {'cell:'+l for l in labels}
def load(f, mutate=None):
    c = configparser.ConfigParser(); c.read(f)
    taggers = [t.strip() for t in c['TagActivator']['taggers'].replace('\n',' ').split(',') if t.strip()]
    info = {}
    for t in taggers:
        m = re.match(r'(\w+)\s*(?:\((\w+)\))?', t); tag, cls = m.group(1), m.group(2) or m.group(1)
        sec = c[camel(tag)]
        lst = lambda k: [x.strip() for x in sec.get(k,'').replace('\n',' ').split(',') if x.strip()]
        eh = sec.get('event_handler',''); e = re.search(r'\((\w+)\)', eh); ehc = e.group(1) if e else eh
        info[tag] = dict(cls=cls, create=lst('create'), trash=lst('trash'), act=lst('activate'), deact=lst('deactivate'), ehc=ehc, label=sec.get('internal_state_label',''))
    if mutate: mutate(info)
    return info
def step_act(info, a, T):
    a = dict(a)
    for x in info[T]['act']: a[x] = True
    for x in info[T]['deact']: a[x] = False
    return a
def check(info):
    tags = list(info); start = [t for t in tags if 'start_of_run' in info[t]['ehc']][0]
    ends = [t for t in tags if 'end_of_run' in info[t]['ehc']]
    def step(a, s, T):
        a2 = step_act(info, a, T); s2 = {}
        for X in tags:
            st = s[X]
            if X in info[T]['trash']: st = 'empty'
            elif st == 'fresh' and affects(info[T], {i['label'] for i in info.values()}) & reads(info[X]): st = 'stale'
            if X in info[T]['create'] and a2[X]:
                st = 'fresh' if st == 'empty' else 'dup'
            s2[X] = st
        return a2, s2
    def W(a, s, errs, ctx):
        ok = True
        for X in tags:
            want = 'fresh' if (a[X] and X != start) else 'empty'
            if s[X] != want: errs.append((ctx, X, s[X], 'want', want)); ok = False
        return ok
    errs = []
    a0 = {t: True for t in tags}; s0 = {t: 'empty' for t in tags}
    a0 = step_act(info, a0, start)  # first get_event_handlers_to_run call applies start tagger's (de)activations
    s0[start] = 'fresh'
    # start event
    a1, s1 = step(a0, s0, start)
    W(a1, s1, errs, 'after start_of_run')
    # reachable activation vectors
    seen = {tuple(sorted(a1.items()))}; work = [a1]
    while work:
        a = work.pop()
        for T in tags:
            if T == start or T in ends or not a[T]: continue
            a2 = step_act(info, a, T); k = tuple(sorted(a2.items()))
            if k not in seen: seen.add(k); work.append(a2)
    n = 0
    for k in seen:
        a = dict(k); s = {X: ('fresh' if (a[X] and X != start) else 'empty') for X in tags}
        for T in tags:
            if T == start or T in ends or not a[T]: continue
            a2, s2 = step(a, s, T); n += 1
            W(a2, s2, errs, 'event of ' + T)
    return n, len(seen), errs
files = sorted(glob.glob('config_files/**/*.ini', recursive=True))
tot = 0
for f in files:
    n, modes, errs = check(load(f)); tot += n
    print(f.split('config_files/')[1], 'steps', n, 'modes', modes, 'FAIL %s' % errs[:3] if errs else 'ok')
print('total step obligations', tot)
# mutants
def m1(info): info['coulomb_cell_veto']['create'].remove('harmonic')
def m2(info): info['cell_boundary']['trash'].remove('coulomb_nearby')
def m3(info): info['leaf_to_root']['deact'].remove('harmonic_leaf')
print('mutant drop create   :', check(load('config_files/2018_JCP_149_064113/dipoles/cell_veto.ini', m1))[2][:2])
print('mutant drop trash    :', check(load('config_files/2018_JCP_149_064113/dipoles/cell_veto.ini', m2))[2][:2])
print('mutant drop deactiv. :', check(load('config_files/2018_JCP_149_064113/dipoles/dipole_motion.ini', m3))[2][:2])
