import time
from z3 import *
D = Float64(); rne = RNE()
def fpv(x): return FPVal(x, D)
def chk(name, *fs, expect=None):
    s = Solver(); s.set('timeout', 60000); s.add(*fs)
    t=time.time(); r=s.check(); print(name, r, '%.2fs'%(time.time()-t), '' if r!=sat else {str(d): s.model()[d] for d in s.model().decls()})
# --- C15: python float %  with L>0:  m = fmod(x,L) exact, |m|<L, sign(m)=sign(x) or 0 ; res = m if m>=0 (or zero) else RN(m+L)
m, L = FPs('m L', D)
zero = fpv(0.0)
pre = And(fpGT(L, zero), Not(fpIsInf(L)), Not(fpIsNaN(m)), fpLT(fpAbs(m), L))
res = If(fpLT(m, zero), fpAdd(rne, m, L), m)
chk('C15 range [0,L) (expect sat on pinned code)', pre, Not(And(fpGEQ(res, zero), fpLT(res, L))))
res_fixed = If(fpEQ(res, L), zero, res)     # candidate repair: wrapped value == modulus -> 0.0
chk('C15 range with candidate repair (expect unsat)', pre, Not(And(fpGEQ(res_fixed, zero), fpLT(res_fixed, L))))
chk('C15 idempotent with repair: fmod(r,L)=r for 0<=r<L so second application is identity', pre,
    Not(And(fpGEQ(res_fixed, zero), fpLT(fpAbs(res_fixed), L))))
# separation: y = RN(s + L/2); m2 = pymod(y,L) in [0,L]; out = RN(m2 - L/2); |out| <= L/2
m2 = FP('m2', D); h = fpDiv(rne, L, fpv(2.0))
pre2 = And(fpGT(L, fpv(2.0**-1000)), Not(fpIsInf(L)), fpGEQ(m2, zero), fpLEQ(m2, L))
out = fpSub(rne, m2, h)
chk('C15 |sep| <= L/2 (expect unsat)', pre2, Not(fpLEQ(fpAbs(out), h)))
# --- C05 tiling lemma, induction step, LRA with min/max
lo, hi, c, p, acc = Reals('lo hi c p acc')
def ilen(a, b, x, y):  # |[a,b] ∩ [x,y]|
    l = If(a > x, a, x); r = If(b < y, b, y); return If(r > l, r - l, 0)
chk('C05 tiling step (expect unsat)', lo <= hi, c >= 0, p >= 0, acc == ilen(lo, hi, 0, c),
    Not(acc + ilen(lo, hi, c, c + p) == ilen(lo, hi, 0, c + p)))
