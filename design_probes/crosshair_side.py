import icontract
from jellyfysh.potential.hard_sphere_potential import HardSpherePotential
_p = HardSpherePotential.__new__(HardSpherePotential); _p._diameter_squared = 4.0

@icontract.require(lambda vx, sx, sy: vx > 0.0 and sx*sx + sy*sy >= 4.0 and abs(sx) < 1e6 and abs(sy) < 1e6 and vx < 1e3)
@icontract.ensure(lambda result: result >= -1e-9)
def disp(vx: float, sx: float, sy: float) -> float:
    return _p.displacement([vx, 0.0], [sx, sy])

@icontract.require(lambda vx, sx, sy: vx > 0.0 and sx*sx + sy*sy >= 4.0 and abs(sx) < 1e6 and abs(sy) < 1e6 and vx < 1e3)
@icontract.ensure(lambda result: result >= 1.0)   # deliberately wrong: must be refuted
def disp_wrong(vx: float, sx: float, sy: float) -> float:
    return _p.displacement([vx, 0.0], [sx, sy])
