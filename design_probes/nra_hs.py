import time
from z3 import *
# HardSpherePotential.displacement over reals, 2-D general velocity
vx, vy, sx, sy, dsq, t, rt, tp = Reals('vx vy sx sy dsq t rt tp')
v2 = vx*vx+vy*vy; s2 = sx*sx+sy*sy; vs = vx*sx+vy*sy
term = vs*vs - v2*(s2-dsq)
pre = And(v2 > 0, dsq > 0, s2 >= dsq)
finite = And(term >= 0, vs >= 0)
sqrt_def = And(rt >= 0, rt*rt == term)
res = (vs - rt)/v2
def dist2(tt): return (sx - vx*tt)**2 + (sy - vy*tt)**2
def prove(name, *hyp_and_claim):
    *hyp, claim = hyp_and_claim
    s = Solver(); s.set('timeout', 60000); s.add(*hyp, Not(claim))
    t0=time.time(); r = s.check(); print(name, 'PROVED' if r==unsat else r, '%.2fs'%(time.time()-t0))
    if r==sat: print(s.model())
prove('contact', pre, finite, sqrt_def, t == res, dist2(t) == dsq)
prove('nonneg', pre, finite, sqrt_def, t == res, t >= 0)
prove('first', pre, finite, sqrt_def, t == res, tp >= 0, tp < t, dist2(tp) > dsq)
prove('inf_iff_no_contact', pre, Not(finite), tp >= 0, dist2(tp) >= dsq)  # no strict overlap ever... 
prove('inf_no_contact_strict', pre, Not(finite), s2 > dsq, tp >= 0, dist2(tp) > dsq)
