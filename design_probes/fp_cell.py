import time, sys
from z3 import *
D = Float64(); rne = RNE()
def fpv(x): return FPVal(x, D)
x, L, n = FPs('x L n', D)
zero=fpv(0.0)
pre = And(fpGT(L, fpv(2.0**-100)), fpLT(L, fpv(2.0**100)), fpGEQ(n, fpv(1.0)), fpLEQ(n, fpv(2.0**20)),
          fpEQ(fpRoundToIntegral(RTZ(), n), n), fpGEQ(x, zero), fpLT(x, L))
side = fpDiv(rne, L, n)
idx = fpRoundToIntegral(RTZ(), fpDiv(rne, x, side))
sol = Solver(); sol.set('timeout', 120000)
sol.add(pre, Not(fpLT(idx, n)))
t=time.time(); res=sol.check(); print('idx<n:', res, '%.1fs'%(time.time()-t))
if res==sat:
    m=sol.model(); print(m)
