import ast, sys, collections
targets = {
 'C14': ['jellyfysh/base/time.py'],
 'C15': ['jellyfysh/setting/hypercubic_setting.py:HypercubicPeriodicBoundaries','jellyfysh/setting/hypercuboid_setting.py:HypercuboidPeriodicBoundaries'],
 'C16': ['jellyfysh/activator/internal_state/cell_occupancy/cells/cuboid_cells.py','jellyfysh/activator/internal_state/cell_occupancy/cells/cuboid_periodic_cells.py'],
 'C05': ['jellyfysh/lifting/lifting.py','jellyfysh/lifting/inside_first_lifting.py','jellyfysh/lifting/outside_first_lifting.py','jellyfysh/lifting/ratio_lifting.py'],
 'C18': ['jellyfysh/event_handler/walker.py','jellyfysh/event_handler/abstracts/cell_veto_event_handler.py'],
 'C06py': ['jellyfysh/scheduler/heap_scheduler/heap_scheduler.py','jellyfysh/scheduler/list_scheduler.py'],
 'C13': ['jellyfysh/state_handler/tree_state_handler.py','jellyfysh/state_handler/physical_state/tree_physical_state.py','jellyfysh/state_handler/lifting_state/tree_lifting_state.py'],
 'C11': ['jellyfysh/activator/internal_state/single_active_cell_occupancy.py','jellyfysh/event_handler/cell_boundary_event_handler.py'],
 'C10': ['jellyfysh/activator/tagger/cell_veto_tagger.py','jellyfysh/activator/tagger/cell_bounding_potential_tagger.py','jellyfysh/activator/tagger/excluded_cells_tagger.py','jellyfysh/activator/tagger/surplus_cells_tagger.py','jellyfysh/activator/tagger/factor_type_maps.py:_FactorTypeMap','jellyfysh/activator/tagger/factor_type_maps.py:_AllLeafUnitFactorTypeMap'],
 'C02/3': ['jellyfysh/potential/abstracts.py','jellyfysh/potential/inverse_power_potential.py','jellyfysh/potential/lennard_jones_potential.py','jellyfysh/potential/displaced_even_power_potential.py','jellyfysh/potential/hard_sphere_potential.py','jellyfysh/potential/hard_dipole_potential.py','jellyfysh/potential/bending_potential.py','jellyfysh/base/vectors.py'],
 'C07/12': ['jellyfysh/event_handler/abstracts/abstracts.py','jellyfysh/event_handler/abstracts/composite_objects.py','jellyfysh/event_handler/abstracts/end_of_chain_event_handler.py','jellyfysh/event_handler/root_leaf_unit_active_switcher.py','jellyfysh/event_handler/two_leaf_unit_event_handler.py','jellyfysh/event_handler/initial_chain_start_of_run_event_handler.py'],
 'C08/9': ['jellyfysh/activator/tag_activator.py','jellyfysh/mediator/single_process_mediator.py'],
}
feat_nodes = {'ListComp':ast.ListComp,'GenExp':ast.GeneratorExp,'DictComp':ast.DictComp,'SetComp':ast.SetComp,'Try':ast.Try,'While':ast.While,'For':ast.For,'Lambda':ast.Lambda,'Yield':(ast.Yield,ast.YieldFrom),'Starred':ast.Starred,'AugAssign':ast.AugAssign,'IfExp':ast.IfExp,'Assert':ast.Assert,'Raise':ast.Raise,'With':ast.With,'Delete':ast.Delete}
for prop, specs in targets.items():
    tot = collections.Counter(); nf = 0; loc = 0
    for spec in specs:
        path, _, cls = spec.partition(':')
        tree = ast.parse(open(path).read())
        scope = tree
        if cls:
            scope = [n for n in ast.walk(tree) if isinstance(n, ast.ClassDef) and n.name == cls][0]
        for fn in [n for n in ast.walk(scope) if isinstance(n, ast.FunctionDef)]:
            if fn.name in ('__init__',) and prop not in ('C16','C18','C05'): pass
            nf += 1
            body = [s for s in fn.body if not (isinstance(s, ast.Expr) and isinstance(getattr(s,'value',None), ast.Constant))]
            loc += sum((s.end_lineno - s.lineno + 1) for s in body)
            for name, cls_ in feat_nodes.items():
                tot[name] += sum(1 for n in ast.walk(fn) if isinstance(n, cls_))
    print(f"{prop:7s} functions={nf:3d} body_lines={loc:4d} " + ' '.join(f"{k}={v}" for k,v in tot.items() if v))
