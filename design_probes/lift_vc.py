import time
from z3 import *
N = Function('N', IntSort(), RealSort()); cum = Function('cum', IntSort(), RealSort())
k, idx, j = Ints('k idx j'); pos, summed = Reals('pos summed')
ax = [cum(0) == 0, ForAll([j], Implies(j >= 0, cum(j+1) == cum(j) + N(j)), patterns=[cum(j+1)]),
      ForAll([j], Implies(And(0 <= j, j < k), N(j) >= 0))]
pre = [k >= 1, pos >= 0, pos <= cum(k)]
inv = lambda idx, summed: And(0 <= idx, idx <= k, summed == cum(idx), ForAll([j], Implies(And(0 <= j, j < idx), pos > cum(j+1))))
def chk(name, *fs):
    s = Solver(); s.set('timeout', 60000); s.add(*fs); t=time.time(); r=s.check(); print(name, 'PROVED' if r==unsat else r, '%.2fs'%(time.time()-t))
chk('init', *ax, *pre, Not(inv(0, RealVal(0))))
s2 = summed + N(idx)
# body, no return: invariant preserved
chk('preserve', *ax, *pre, inv(idx, summed), idx < k, Not(pos <= s2), Not(inv(idx+1, s2)))
# body, return: postcondition result index = min{j: pos <= cum(j+1)}
chk('return post', *ax, *pre, inv(idx, summed), idx < k, pos <= s2,
    Not(And(pos <= cum(idx+1), ForAll([j], Implies(And(0 <= j, j < idx), pos > cum(j+1))))))
# fallthrough unreachable in reals when pos <= cum(k)
chk('fallthrough unreachable', *ax, *pre, inv(idx, summed), Not(idx < k))
