import re, sys, subprocess
from pycparser import c_parser, c_ast
def load(path, hdr):
    src = open(hdr).read() + "\n" + open(path).read()
    # drop includes, keep everything else verbatim; strip comments via gcc -fpreprocessed -dD -E -P
    src = re.sub(r'^\s*#\s*include.*$', '', src, flags=re.M)
    src = re.sub(r'^\s*#\s*(ifndef|define|endif).*$', '', src, flags=re.M)
    p = subprocess.run(['gcc','-fpreprocessed','-dD','-E','-P','-x','c','-'], input=src, capture_output=True, text=True)
    text = "typedef unsigned long size_t;\n" + p.stdout
    return c_parser.CParser().parse(text)
ast = load('/repo/jellyfysh/scheduler/heap_scheduler/heap.c','/repo/jellyfysh/scheduler/heap_scheduler/heap.h')
for ext in ast.ext:
    if isinstance(ext, c_ast.FuncDef):
        loops = []
        class V(c_ast.NodeVisitor):
            def visit_While(self, n): loops.append(('while', n.coord.line)); self.generic_visit(n)
            def visit_For(self, n): loops.append(('for', n.coord.line)); self.generic_visit(n)
        V().visit(ext)
        print(ext.decl.name, loops)
