import sys, time, os, contextlib, glob
from configparser import ConfigParser
from unittest import mock
import jellyfysh.run as run
import jellyfysh.setting as setting
from jellyfysh.activator.tagger.factor_type_maps import FactorTypeMaps
from jellyfysh.state_handler.tree_state_handler import TreeStateHandler
from jellyfysh.base.exceptions import EndOfRun
import jellyfysh
base = os.path.dirname(jellyfysh.__file__)
class Stop(Exception): pass
def go(ini, nmax):
    cfg = ConfigParser(); cfg.read(ini)
    for sec in cfg.sections():
        if cfg.has_option(sec, 'filename') and 'OutputHandler' in sec:
            cfg.set(sec, 'filename', 'out_'+sec+'.dat')
    for sec in cfg.sections():
        if cfg.has_option(sec, 'filename') and 'OutputHandler' not in sec:
            cfg.set(sec, 'filename', os.path.join(base, cfg.get(sec, 'filename')))
    n = [0]; orig = TreeStateHandler.insert_into_global_state
    depth=[0]
    def wrapped(self, st):
        if depth[0]==0:
            n[0]+=1
            if n[0] > nmax: raise EndOfRun
        depth[0]+=1
        try: return orig(self, st)
        finally: depth[0]-=1
    sys.argv[1:] = [ini]
    t=time.time()
    with mock.patch('jellyfysh.run.read_config', return_value=cfg), mock.patch.object(TreeStateHandler,'insert_into_global_state', wrapped):
        with open(os.devnull,'w') as dn, contextlib.redirect_stdout(dn):
            try: run.main()
            except Exception as e: print('EXC', type(e).__name__, e, file=sys.stderr)
    dt=time.time()-t
    setting.reset(); FactorTypeMaps._instance=None
    import logging; logging.getLogger('').handlers.clear()
    return n[0], dt
NMAX = int(sys.argv[1])
for ini in sorted(glob.glob(base+'/config_files/**/*.ini', recursive=True)):
    n, dt = go(ini, NMAX)
    print('%-70s commits=%d  %.1fs' % (ini.split('config_files/')[1], n, dt), flush=True)
