import time, sys
from z3 import *
D = Float64()
rne = RNE()
def fpv(x): return FPVal(x, D)
q, r, d, d2, s, s3 = FPs('q r d d2 s s3', D)
one = fpv(1.0); zero = fpv(0.0)
def norm_time(q,r):
    return And(Not(fpIsNaN(q)), fpGEQ(q, zero), fpLEQ(q, fpv(2.0**52)), fpEQ(fpRoundToIntegral(RTZ(), q), q),
          fpGEQ(r, zero), fpLT(r, one))
def exact_add(a,b): return fpEQ(fpAdd(RTP(), a, b), fpAdd(RTN(), a, b))
def exact_sub(a,b): return fpEQ(fpSub(RTP(), a, b), fpSub(RTN(), a, b))
def prove(name, pre, claim, timeout=120000):
    sol = Solver(); sol.set('timeout', timeout)
    sol.add(pre, Not(claim))
    t=time.time(); res = sol.check(); dt=time.time()-t
    print(name, 'PROVED' if res==unsat else res, '%.1fs'%dt)
    if res==sat: print(sol.model())
    sys.stdout.flush()
which = sys.argv[1]
pre_d = And(norm_time(q,r), fpGEQ(d, zero), fpLEQ(d, fpv(2.0**40)), fpGEQ(d2, zero), fpLEQ(d2, fpv(2.0**40)))
if which == 'addmono':
    prove('add_monotone', pre_d, Implies(fpLEQ(d, d2), fpLEQ(fpAdd(rne, r, d), fpAdd(rne, r, d2))))
if which == 'splitmono':
    # for 0<=s<=s3<=2^41: (floor s, s-floor s) lex<= (floor s3, s3 - floor s3)
    pre = And(fpGEQ(s, zero), fpLEQ(s, s3), fpLEQ(s3, fpv(2.0**41)))
    fl = fpRoundToIntegral(RTZ(), s); fl3 = fpRoundToIntegral(RTZ(), s3)
    m = fpSub(rne, s, fl); m3 = fpSub(rne, s3, fl3)
    prove('split_monotone', pre, Or(fpLT(fl, fl3), And(fpEQ(fl, fl3), fpLEQ(m, m3))))
if which == 'splitexact':
    pre = And(fpGEQ(s, zero), fpLEQ(s, fpv(2.0**41)))
    fl = fpRoundToIntegral(RTZ(), s)
    prove('sub_exact', pre, exact_sub(s, fl))
    m = fpSub(rne, s, fl)
    prove('recombine_exact', pre, And(exact_add(fl, m), fpEQ(fpAdd(rne, fl, m), s)))
if which == 'qaddexact':
    fl = FP('fl', D)
    pre = And(norm_time(q, r), fpGEQ(fl, zero), fpLEQ(fl, fpv(2.0**41)), fpEQ(fpRoundToIntegral(RTZ(), fl), fl))
    prove('q_add_exact', pre, exact_add(q, fl))
    fl3 = FP('fl3', D)
    prove('q_add_strict_mono', And(pre, fpGEQ(fl3, zero), fpLEQ(fl3, fpv(2.0**41)), fpEQ(fpRoundToIntegral(RTZ(), fl3), fl3)),
          Implies(fpLT(fl, fl3), fpLT(fpAdd(rne, q, fl), fpAdd(rne, q, fl3))))
