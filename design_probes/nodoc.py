import ast, sys
for path in sys.argv[1:]:
    src = open(path).read()
    tree = ast.parse(src)
    skip = set()
    for node in ast.walk(tree):
        if isinstance(node, (ast.FunctionDef, ast.ClassDef, ast.Module, ast.AsyncFunctionDef)):
            if node.body and isinstance(node.body[0], ast.Expr) and isinstance(getattr(node.body[0], 'value', None), ast.Constant) and isinstance(node.body[0].value.value, str):
                d = node.body[0]
                for l in range(d.lineno, d.end_lineno + 1):
                    skip.add(l)
        # attribute docstrings
        if isinstance(node, ast.Expr) and isinstance(node.value, ast.Constant) and isinstance(node.value.value, str):
            for l in range(node.lineno, node.end_lineno + 1):
                skip.add(l)
    print("#####", path)
    lines = src.split("\n")
    started = False
    for i, line in enumerate(lines, 1):
        if i in skip: continue
        if not started:
            if line.startswith("#") or not line.strip(): continue
            started = True
        if not line.strip(): continue
        print(f"{i:4d} {line}")
