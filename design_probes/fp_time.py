import time, sys
from z3 import *
D = Float64()
RNE = RNE()
def fpv(x): return FPVal(x, D)
q, r, d = FPs('q r d', D)
one = fpv(1.0); zero = fpv(0.0)
# preconditions: Time normalised: q integer-valued, 0<=q<=2^52 ; 0<=r<1 ; 0<=d<=2^40
pre = And(fpIsNormal(q) | fpIsZero(q), q >= zero, q <= fpv(2.0**52), fpRoundToIntegral(RTZ(), q) == q,
          r >= zero, r < one, d >= zero, d <= fpv(2.0**40))
s = fpAdd(RNE, r, d)
# CPython float divmod(s, 1.0) for s>=0: mod = fmod(s,1.0) (exact) = s - trunc(s); div = (s-mod)/1.0; floordiv=floor(div)
fl = fpRoundToIntegral(RTZ(), s)     # s>=0 so trunc == floor
mod = fpSub(RNE, s, fl)              # exact
q2 = fpAdd(RNE, q, fl)
r2 = mod
def prove(name, claim, timeout=600000):
    sol = Solver(); sol.set('timeout', timeout)
    sol.add(pre, Not(claim))
    t=time.time(); res = sol.check(); dt=time.time()-t
    print(name, 'PROVED' if res==unsat else res, '%.1fs'%dt)
    if res==sat: print(sol.model())
    sys.stdout.flush()
prove('rem_in_[0,1)', And(r2 >= zero, r2 < one))
prove('quot_integer', fpRoundToIntegral(RTZ(), q2) == q2)
prove('never_decreases', Or(q2 > q, And(q2 == q, r2 >= r)))
# exactness of split: fl + mod == s exactly (in reals) -- check via FP: fpAdd(fl, mod)==s
prove('split_exact', fpAdd(RNE, fl, mod) == s)
