"""The monitors: contract clauses of the history properties evaluated on the real objects during real runs."""
import copy
import math
from unittest import mock

TOL = 1e-9


def flatten(roots):
    """{identifier: (position, velocity, (quotient, remainder) | None, charge, n_children)} of extracted root cnodes."""
    out = {}

    def visit(node):
        u = node.value
        ts = None if u.time_stamp is None else (u.time_stamp.quotient, u.time_stamp.remainder)
        out[tuple(u.identifier)] = (list(u.position), None if u.velocity is None else list(u.velocity), ts,
                                    None if u.charge is None else dict(u.charge), len(node.children))
        for c in node.children:
            visit(c)
    for r in roots:
        visit(r)
    return out


def tsub(a, b):
    """exact-ish difference of two (quotient, remainder) times"""
    return (a[0] - b[0]) + (a[1] - b[1])


def lengths():
    import jellyfysh.setting as setting
    from jellyfysh.setting import hypercuboid_setting
    return list(hypercuboid_setting.system_lengths)


def congruent(x, y, L):
    d = (x - y) / L
    return abs(d - round(d)) * L <= 1e-7 * max(1.0, L)


def is_a(obj, name):
    """class test that sees through the factory's aliases ("Alias (RealClass)")"""
    return any(c.__name__ == name or ("(" + name + ")") in c.__name__ for c in type(obj).__mro__)


def base_name(obj, names):
    for n in names:
        if is_a(obj, n):
            return n
    return None


class Monitor(object):
    name = "base"

    def __init__(self, rec):
        self.rec = rec

    def patches(self):
        return []

    def before_commit(self, sh, out_state, n):
        pass

    def after_commit(self, sh, out_state, n):
        pass


class Motion(Monitor):
    """C07 (continuity, one chain, box, identities), C13 (no change between commits), C12 (composite consistency)."""
    name = "motion"

    def __init__(self, rec):
        super().__init__(rec)
        self.last_after = None
        self.speed = None
        self.charges = None
        self.last_time = None
        self.started = False

    def before_commit(self, sh, out_state, n):
        before = flatten(sh.extract_global_state())
        if self.last_after is not None:
            self.rec.count("C13-between-commits")
            if before != self.last_after:
                diff = [k for k in before if before[k] != self.last_after.get(k)]
                self.rec.violate(self.name, "C13", "global state changed between two commits", {"identifiers": diff[:4], "commit": n})
        self.before = before

    def after_commit(self, sh, out_state, n):
        after = flatten(sh.extract_global_state())
        L = lengths()
        before = self.before
        changed = [k for k in after if after[k] != before.get(k)]
        # event time = the time stamp carried by the units the commit touched
        stamps = [after[k][2] for k in changed if after[k][2] is not None]
        t_event = max(stamps) if stamps else None
        if t_event is not None and self.last_time is not None:
            self.rec.count("C07-time-order")
            if t_event < self.last_time and tsub(t_event, self.last_time) < -1e-9:
                self.rec.violate(self.name, "C07", "committed event time decreased", {"now": t_event, "before": self.last_time, "commit": n})
        if t_event is not None:
            self.last_time = t_event if self.last_time is None else max(self.last_time, t_event)
        # continuity
        for k in changed:
            pos0, vel0, ts0, ch0, _ = before[k]
            pos1, vel1, ts1, ch1, _ = after[k]
            self.rec.count("C07-continuity")
            if ch0 != ch1:
                self.rec.violate(self.name, "C07", "charge changed", {"identifier": k, "commit": n})
            if vel0 is None:
                if any(abs(a - b) > 0 for a, b in zip(pos0, pos1)):
                    self.rec.violate(self.name, "C07", "a unit without velocity moved", {"identifier": k, "before": pos0, "after": pos1, "commit": n})
            else:
                if ts1 is None:
                    dt = tsub(t_event, ts0) if t_event is not None else 0.0
                else:
                    dt = tsub(ts1, ts0)
                for d in range(len(pos0)):
                    if not congruent(pos1[d], pos0[d] + vel0[d] * dt, L[d]):
                        self.rec.violate(self.name, "C07", "position jumped: not previous position + velocity * elapsed time (mod L)",
                                         {"identifier": k, "direction": d, "before": pos0, "velocity": vel0, "dt": dt, "after": pos1, "commit": n})
                        break
        # box, identities
        if self.charges is None:
            self.charges = {k: v[3] for k, v in after.items()}
        self.rec.count("C07-box-identities")
        if set(after) != set(self.charges):
            self.rec.violate(self.name, "C07", "set of identifiers changed", {"commit": n})
        for k, (pos, vel, ts, ch, nch) in after.items():
            for d, x in enumerate(pos):
                if not (0.0 <= x < L[d]) and nch == 0:
                    self.rec.violate(self.name, "C07", "position outside [0, L)", {"identifier": k, "position": pos, "commit": n})
                    break
        # one chain of equal velocities with the initial speed
        leaves = {k: v for k, v in after.items() if v[4] == 0}
        moving = {k: v for k, v in leaves.items() if v[1] is not None}
        if moving:
            self.started = True
        if self.started:
            self.rec.count("C07-one-chain")
            if not moving:
                self.rec.violate(self.name, "C07", "no moving point mass after the start of the run", {"commit": n})
            else:
                vs = [tuple(v[1]) for v in moving.values()]
                if any(max(abs(a - b) for a, b in zip(vs[0], w)) > 1e-9 for w in vs[1:]):
                    self.rec.violate(self.name, "C07", "moving point masses carry different velocities", {"velocities": vs[:3], "commit": n})
                speed = math.sqrt(sum(c * c for c in vs[0]))
                if self.speed is None:
                    self.speed = speed
                elif abs(speed - self.speed) > 1e-9 * max(1.0, self.speed):
                    self.rec.violate(self.name, "C07", "speed of the chain changed", {"speed": speed, "initial": self.speed, "commit": n})
                roots = {k[:1] for k in moving}
                if len(moving) > 1:
                    all_of_root = {k for k in leaves if k[:1] in roots}
                    if len(roots) != 1 or set(moving) != all_of_root:
                        self.rec.violate(self.name, "C07", "moving set is neither one point mass nor all point masses of one composite object",
                                         {"moving": sorted(moving)[:6], "commit": n})
        # C12: composite objects consistent with their point masses
        comps = {k: v for k, v in after.items() if v[4] > 0}
        for rk, (rpos, rvel, rts, _, nch) in comps.items():
            kids = [(k, v) for k, v in leaves.items() if k[:len(rk)] == rk]
            self.rec.count("C12-composite")
            w = 1.0 / len(kids)
            dim = len(rpos)
            vsum = [sum(w * (v[1][d] if v[1] is not None else 0.0) for _, v in kids) for d in range(dim)]
            rv = rvel if rvel is not None else [0.0] * dim
            if any(abs(a - b) > 1e-9 * max(1.0, self.speed or 1.0) for a, b in zip(vsum, rv)):
                self.rec.violate(self.name, "C12", "composite velocity is not the weighted sum of its point masses' velocities",
                                 {"root": rk, "stored": rvel, "sum": vsum, "commit": n})
            if (rvel is None) != all(v[1] is None for _, v in kids):
                self.rec.violate(self.name, "C12", "composite velocity absent/present inconsistently with its point masses",
                                 {"root": rk, "stored": rvel, "commit": n})
            # positions at the common time t = latest stamp among root and kids (or as stored when nothing moves)
            stamps = [x for x in [rts] + [v[2] for _, v in kids] if x is not None]
            tref = max(stamps) if stamps else None

            def adv(pos, vel, ts):
                if vel is None or ts is None or tref is None:
                    return list(pos)
                dt = tsub(tref, ts)
                return [p + q * dt for p, q in zip(pos, vel)]
            rp = adv(rpos, rvel, rts)
            bary = [0.0] * dim
            for _, v in kids:
                kp = adv(v[0], v[1], v[2])
                for d in range(dim):
                    sep = (kp[d] - rp[d] + L[d] / 2.0) % L[d] - L[d] / 2.0
                    bary[d] += w * sep
            if any(abs(b) > 1e-7 * max(1.0, L[d]) for d, b in enumerate(bary)):
                self.rec.violate(self.name, "C12", "composite position is not the barycentre of its point masses",
                                 {"root": rk, "offset": bary, "commit": n})
        self.last_after = after


MONITORS = {"motion": Motion}


CTX = {}


def _capture_mediator():
    from jellyfysh.mediator.single_process_mediator import SingleProcessMediator
    orig = SingleProcessMediator.run

    def run(self):
        CTX["mediator"] = self
        return orig(self)
    return mock.patch.object(SingleProcessMediator, "run", run)


class Activation(Monitor):
    """C09 (pending events == fresh start), C08 (committed event computed from the still-current trajectory),
    C11 (cell occupancy mirrors positions)."""
    name = "activation"

    def __init__(self, rec):
        super().__init__(rec)
        self.pending = {}     # event handler -> in-state identifiers it is running with
        self.snap = {}        # event handler -> flattened in-state at candidate computation time
        self.calls = 0

    def patches(self):
        from jellyfysh.activator.tag_activator import TagActivator
        mon = self
        ps = [_capture_mediator()]
        for meth in ("get_event_handlers_to_run", "_get_event_handlers_to_run_update"):
            orig = getattr(TagActivator, meth)

            def make(orig):
                def wrapped(self, active_state, preceding):
                    try:
                        result = orig(self, active_state, preceding)
                    except Exception as e:
                        if type(e).__name__ == "TagActivatorError":
                            mon.rec.violate(mon.name, "C09", "more event handlers demanded than the tagger owns", {"error": str(e)[:200]})
                        raise
                    mon.after_get(self, active_state, result)
                    return result
                return wrapped
            ps.append(mock.patch.object(TagActivator, meth, make(orig)))
        orig_trash = TagActivator.get_trashable_events

        def trash(self, preceding):
            r = orig_trash(self, preceding)
            for h in r:
                mon.pending.pop(h, None)
                mon.snap.pop(h, None)
            return r
        ps.append(mock.patch.object(TagActivator, "get_trashable_events", trash))
        return ps

    def after_get(self, activator, active_state, result):
        from collections import Counter
        self.calls += 1
        med = CTX.get("mediator")
        sh = med._state_handler if med is not None else None
        for h, ids in result.items():
            self.pending[h] = ids
            if sh is not None and ids is not None:
                try:
                    self.snap[h] = flatten([sh.extract_from_global_state(i) for i in ids])
                except Exception:
                    pass
        if self.calls < 2:
            return     # before the start-of-run event is committed only its own event is pending
        for tagger in activator._taggers:
            running = activator._running_event_handlers[tagger]
            have = Counter(repr(self.pending.get(h, "?")) for h in running)
            fresh = Counter(repr(i) for i in tagger.yield_identifiers_send_event_time(active_state))
            self.rec.count("C09-pending-equals-fresh")
            is_start = type(tagger).__name__.lower().startswith("startofrun") or "start_of_run" in getattr(tagger, "tag", "")
            if is_start:
                continue
            hname = " ".join(c.__name__ for c in type(tagger._event_handler_to_copy).__mro__) \
                if hasattr(tagger, "_event_handler_to_copy") else ""
            count_only = any(k in hname for k in ("EndOfChain", "Sampling", "EndOfRun", "Dumping", "Switcher", "StartOfRun"))
            if count_only:
                if sum(have.values()) != sum(fresh.values()):
                    self.rec.violate(self.name, "C09", "number of pending events of a tagger differs from what it generates",
                                     {"tagger": getattr(tagger, "tag", type(tagger).__name__), "pending": sum(have.values()),
                                      "fresh": sum(fresh.values()), "call": self.calls})
                continue
            if have != fresh:
                self.rec.violate(self.name, "C09", "pending events of a tagger differ from what it generates for the current state",
                                 {"tagger": getattr(tagger, "tag", type(tagger).__name__), "pending": dict(have), "fresh": dict(fresh),
                                  "call": self.calls})
        # C11
        if sh is not None:
            self.check_occupancy(activator, sh, active_state)
            self.check_partition(activator, sh, active_state)

    def check_occupancy(self, activator, sh, active_state):
        from jellyfysh.base.node import yield_nodes_on_level_below
        roots = None
        for occ in getattr(activator, "_internal_states", []):
            if not is_a(occ, "SingleActiveCellOccupancy"):
                continue
            if roots is None:
                roots = sh.extract_global_state()
            self.rec.count("C11-occupancy")
            where = {}
            for cell, lst in occ._occupants.items():
                for ident in lst:
                    where.setdefault(tuple(ident), []).append(("occupant", cell))
                if not occ._number_occupants_not_bounded and len(lst) > occ._maximum_number_occupants:
                    self.rec.violate(self.name, "C11", "a cell lists more occupants than its limit", {"cell": str(cell), "n": len(lst)})
            for cell, lst in occ._surplus.items():
                for ident in lst:
                    where.setdefault(tuple(ident), []).append(("surplus", cell))
            active = tuple(occ._active_unit_identifier) if occ._active_unit_identifier is not None else None
            for root in roots:
                for cnode in yield_nodes_on_level_below(root, occ.cell_level - 1):
                    unit = cnode.value
                    ident = tuple(unit.identifier)
                    if not occ._is_relevant_unit(unit):
                        if ident in where:
                            self.rec.violate(self.name, "C11", "irrelevant unit recorded", {"identifier": ident})
                        continue
                    try:
                        cell = occ._cells.position_to_cell(unit.position)
                    except Exception as e:
                        self.rec.violate(self.name, "C16", "position_to_cell failed for a position in the box", {"position": list(unit.position), "error": str(e)[:80]})
                        continue
                    if ident == active:
                        if ident in where:
                            self.rec.violate(self.name, "C11", "active unit is listed as occupant/surplus", {"identifier": ident})
                        if occ._active_cell is not cell:
                            self.rec.violate(self.name, "C11", "recorded active cell does not contain the active unit",
                                             {"identifier": ident, "position": list(unit.position)})
                    else:
                        w = where.get(ident, [])
                        if len(w) != 1 or w[0][1] is not cell:
                            self.rec.violate(self.name, "C11", "unit not recorded exactly once in the cell containing its position",
                                             {"identifier": ident, "position": list(unit.position), "recorded": [(k, str(c)) for k, c in w]})

    def check_partition(self, activator, sh, active_state):
        """C10: the targets of the cell-based event families partition the other relevant units of the cell level."""
        from collections import Counter
        from jellyfysh.base.node import yield_nodes_on_level_below
        groups = {}
        for tagger in activator._taggers:
            occ = getattr(tagger, "_internal_state", None)
            if occ is None or not is_a(occ, "SingleActiveCellOccupancy"):
                continue
            kinds = {"CellVetoTagger": "veto", "CellBoundingPotentialTagger": "bounding", "ExcludedCellsTagger": "near",
                     "SurplusCellsTagger": "surplus"}
            kind = kinds.get(base_name(tagger, list(kinds)))
            if kind is None:
                continue
            if tagger.yield_identifiers_send_event_time is getattr(tagger, "_deactivated_yield_identifiers_send_event_time", None):
                continue
            groups.setdefault(id(occ), {"occ": occ})[kind] = tagger
        roots = None
        for g in groups.values():
            occ = g["occ"]
            if occ._active_unit_identifier is None or not (("veto" in g or "bounding" in g) and "near" in g and "surplus" in g):
                continue
            if roots is None:
                roots = sh.extract_global_state()
            active = tuple(occ._active_unit_identifier)
            relevant = []
            for root in roots:
                for cnode in yield_nodes_on_level_below(root, occ.cell_level - 1):
                    if occ._is_relevant_unit(cnode.value) and tuple(cnode.value.identifier) != active:
                        relevant.append(tuple(cnode.value.identifier))
            near = [tuple(t[1]) for t in g["near"].yield_identifiers_send_event_time(active_state)]
            surplus = [tuple(t[1]) for t in g["surplus"].yield_identifiers_send_event_time(active_state)]
            nearby = occ.cells.nearby_cells(occ._active_cell)
            if "bounding" in g:
                far = [tuple(o) for t in g["bounding"].yield_identifiers_send_event_time(active_state) for o in t[1:]]
            else:   # cell veto: the walker proposes every cell that is not nearby; its occupants are the (implicit) targets
                far = [tuple(o) for c in occ.cells.yield_cells() if c not in nearby for o in occ[c]]
                if [tuple(t[0]) for t in g["veto"].yield_identifiers_send_event_time(active_state)] != [active]:
                    self.rec.violate(self.name, "C10", "cell-veto tagger does not yield exactly the active unit", {"active": active})
            self.rec.count("C10-partition")
            got = Counter(near) + Counter(surplus) + Counter(far)
            if got != Counter(relevant):
                missing = sorted((Counter(relevant) - got).elements())[:4]
                twice = sorted((got - Counter(relevant)).elements())[:4]
                self.rec.violate(self.name, "C10", "cell-based event families do not partition the other relevant units",
                                 {"active": active, "missed": missing, "treated_twice_or_foreign": twice, "call": self.calls})

    def before_commit(self, sh, out_state, n):
        med = CTX.get("mediator")
        if med is None:
            return
        h = med._event_handler_with_shortest_event_time
        snap = self.snap.get(h)
        if snap is None:
            return
        name = " ".join(c.__name__ for c in type(h).__mro__)
        if not any(k in name for k in ("TwoLeafUnit", "TwoCompositeObject", "CellVeto", "FixedSeparations", "Bounding")):
            return
        now = flatten(sh.extract_global_state())
        L = lengths()
        self.rec.count("C08-still-current")
        for k, (pos0, vel0, ts0, _, _) in snap.items():
            pos1, vel1, ts1, _, _ = now[k]
            if vel0 != vel1:
                self.rec.violate(self.name, "C08", "committed event was computed with a velocity that is no longer current",
                                 {"handler": type(h).__name__, "identifier": k, "then": vel0, "now": vel1, "commit": n})
                continue
            if vel0 is None:
                same = all(abs(a - b) == 0 for a, b in zip(pos0, pos1))
            else:
                dt = tsub(ts1, ts0)
                same = all(congruent(pos1[d], pos0[d] + vel0[d] * dt, L[d]) for d in range(len(pos0)))
            if not same:
                self.rec.violate(self.name, "C08", "committed event was computed from a trajectory that is no longer current",
                                 {"handler": type(h).__name__, "identifier": k, "then": pos0, "now": pos1, "commit": n})


class Sampling(Monitor):
    """C17: the state written at a sample is time-sliced to the sample time; sample times are multiples of the interval."""
    name = "sampling"

    def patches(self):
        from jellyfysh.mediator.mediator import Mediator
        mon = self
        orig = Mediator.mediate_sampling_event_handler

        def wrapped(self):
            h = self._event_handler_with_shortest_event_time
            state = flatten(self._state_handler.extract_global_state())
            mon.rec.count("C17-sample-state")
            t = getattr(h, "_event_time", None)
            if t is not None:
                tt = (t.quotient, t.remainder)
                for k, (pos, vel, ts, _, _) in state.items():
                    if vel is not None and ts != tt:
                        mon.rec.violate(mon.name, "C17", "a moving unit was not advanced to the sample time",
                                        {"identifier": k, "time_stamp": ts, "sample_time": tt})
                        break
                interval = getattr(h, "_sampling_interval", None)
                if interval:
                    ratio = (t.quotient + t.remainder) / interval
                    mon.rec.count("C17-sample-time")
                    if abs(ratio - round(ratio)) > 1e-6:
                        mon.rec.violate(mon.name, "C17", "sample not at a multiple of the sampling interval",
                                        {"time": tt, "interval": interval})
            return orig(self)
        return [mock.patch.object(Mediator, "mediate_sampling_event_handler", wrapped)]


MONITORS.update({"activation": Activation, "sampling": Sampling})
