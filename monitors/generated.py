"""Harness-generated configurations: a shipped .ini plus option overrides (the property texts quantify over generated
configurations as well as the shipped ones)."""
GENERATED = {
    # a three-point-mass composite object (water) that alternates between leaf-unit-active and root-unit-active motion:
    # the shipped mode-switching configuration only has two-point-mass objects (dipoles)
    "generated/water_single_molecule_mode_switching": ("2018_JCP_149_064113/water/single_molecule.ini", [
        ("HypercubicSetting", "system_length", "3"),
        ("TagActivator", "taggers",
         "harmonic (factor_type_map_in_state_tagger), bending (factor_type_map_in_state_tagger), "
         "sampling (no_in_state_tagger), leaf_to_root (active_root_unit_in_state_tagger), "
         "root_to_leaf (active_root_unit_in_state_tagger), end_of_chain (active_global_state_in_state_tagger), "
         "end_of_run (no_in_state_tagger), start_of_run (no_in_state_tagger)"),
        ("RootToLeaf", "create", "harmonic, bending, leaf_to_root, end_of_chain"),
        ("RootToLeaf", "trash", "root_to_leaf, end_of_chain"),
        ("RootToLeaf", "activate", "harmonic, bending, leaf_to_root"),
        ("RootToLeaf", "deactivate", "root_to_leaf"),
        ("RootToLeaf", "event_handler", "root_to_leaf_mode (root_leaf_unit_active_switcher)"),
        ("RootToLeafMode", "chain_length", "0.7"),
        ("RootToLeafMode", "aim_mode", "leaf_unit_active"),
        ("LeafToRoot", "trash", "harmonic, bending, leaf_to_root, end_of_chain"),
        ("LeafToRoot", "create", "root_to_leaf, end_of_chain"),
        ("LeafToRoot", "activate", "root_to_leaf"),
        ("LeafToRoot", "deactivate", "harmonic, bending, leaf_to_root"),
        ("LeafToRoot", "event_handler", "leaf_to_root_mode (root_leaf_unit_active_switcher)"),
        ("LeafToRootMode", "chain_length", "0.69"),
        ("LeafToRootMode", "aim_mode", "root_unit_active"),
        ("EndOfRun", "trash", "end_of_chain, harmonic, bending, leaf_to_root, root_to_leaf, end_of_run"),
        ("StartOfRun", "create", "harmonic, bending, sampling, leaf_to_root, end_of_chain, end_of_run"),
        ("StartOfRun", "activate", "harmonic, bending, sampling, leaf_to_root, end_of_chain, end_of_run"),
        ("StartOfRun", "deactivate", "root_to_leaf"),
    ]),
}
