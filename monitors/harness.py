"""Run-time contract monitors (the BOUNDED stand-in of this design; never counted as proof).

One subprocess per shipped configuration: the real run.main() of $VERIF_REPO is executed for a stated number of
committed events with the real classes wrapped FROM OUTSIDE (no repository edit); each wrapper evaluates the contract
clauses of one property on the real objects.  C extensions are rebuilt from the current .c sources into a scratch
directory and pre-loaded under their package names, so an edit to a .c file is seen.

usage (internal):  python -m monitors.harness <ini> <max_events> <seed> <comma separated monitor names>
prints one JSON line: {"config":..., "events":..., "evaluations": {...}, "violations": [...], "error": ...}"""
import contextlib
import copy
import hashlib
import importlib
import importlib.machinery
import importlib.util
import json
import math
import os
import random
import sys
import tempfile
import time
import traceback

REPO = os.environ.get("VERIF_REPO", "/repo")

CEXT = [
    ("jellyfysh.scheduler.heap_scheduler._heap", "jellyfysh/scheduler/heap_scheduler/heap_build.py"),
    ("jellyfysh.potential.merged_image_coulomb_potential._merged_image_coulomb_potential",
     "jellyfysh/potential/merged_image_coulomb_potential/merged_image_coulomb_potential_build.py"),
    ("jellyfysh.potential.inverse_power_coulomb_bounding_potential._inverse_power_coulomb_bounding_potential",
     "jellyfysh/potential/inverse_power_coulomb_bounding_potential/inverse_power_coulomb_bounding_potential_build.py"),
]


def build_c_extensions(repo=REPO, cflags=None):
    """Compile the three cffi extensions from the CURRENT sources; returns {module name: path of .so}."""
    out = {}
    for modname, build_script in CEXT:
        script = os.path.join(repo, build_script)
        if not os.path.isfile(script):
            continue
        srcdir = os.path.dirname(script)
        h = hashlib.sha256()
        for fn in sorted(os.listdir(srcdir)):
            if fn.endswith((".c", ".h", "_build.py")):
                h.update(open(os.path.join(srcdir, fn), "rb").read())
        h.update(repr(cflags).encode())
        cache = os.path.join(tempfile.gettempdir(), "verif-cext-%s-%s" % (modname.split(".")[-1], h.hexdigest()[:16]))
        so = None
        if os.path.isdir(cache):
            for fn in os.listdir(cache):
                if fn.endswith(".so"):
                    so = os.path.join(cache, fn)
        if so is None:
            os.makedirs(cache, exist_ok=True)
            ns = {"__name__": "verif_build", "__file__": script}
            src = open(script).read()
            cwd = os.getcwd()
            os.chdir(repo)
            try:
                exec(compile(src, script, "exec"), ns)
                fb = ns["ffi_builder"]
                name, source, ext, kwds = fb._assigned_source
                kwds = dict(kwds)
                kwds["sources"] = [os.path.join(repo, s) for s in kwds.get("sources", [])]
                kwds["include_dirs"] = [os.path.join(repo, s) for s in kwds.get("include_dirs", [])]
                if cflags:
                    kwds["extra_compile_args"] = list(kwds.get("extra_compile_args", [])) + list(cflags)
                    kwds["extra_link_args"] = list(kwds.get("extra_link_args", [])) + list(cflags)
                fb._assigned_source = (modname.split(".")[-1], source, ext, kwds)
                with open(os.devnull, "w") as dn, contextlib.redirect_stdout(dn), contextlib.redirect_stderr(dn):
                    so = fb.compile(tmpdir=cache, verbose=False)
            finally:
                os.chdir(cwd)
        out[modname] = so
    return out


def preload_extensions(mapping):
    for modname, so in mapping.items():
        loader = importlib.machinery.ExtensionFileLoader(modname.split(".")[-1], so)
        spec = importlib.util.spec_from_file_location(modname.split(".")[-1], so, loader=loader)
        mod = importlib.util.module_from_spec(spec)
        loader.exec_module(mod)
        sys.modules[modname] = mod


class Violation(Exception):
    pass


class Recorder(object):
    def __init__(self):
        self.evaluations = {}
        self.violations = []
        self.samples = []

    def count(self, monitor, n=1):
        self.evaluations[monitor] = self.evaluations.get(monitor, 0) + n

    def violate(self, monitor, prop, message, detail=None):
        if len(self.violations) < 20:
            self.violations.append({"monitor": monitor, "property": prop, "message": message, "detail": detail})


def run_config(ini, nmax, seed, monitor_names):
    sys.path.insert(0, REPO)
    preload_extensions(build_c_extensions())
    from configparser import ConfigParser
    from unittest import mock
    import jellyfysh
    import jellyfysh.run as run
    import jellyfysh.setting as setting
    from jellyfysh.state_handler.tree_state_handler import TreeStateHandler
    from jellyfysh.base.exceptions import EndOfRun
    from monitors import checks as mon
    base = os.path.dirname(jellyfysh.__file__)
    cfg = ConfigParser()
    label = None
    if ini.startswith("generated/"):
        from monitors.generated import GENERATED
        base_ini, overrides = GENERATED[ini]
        label = ini
        ini = os.path.join(base, "config_files", base_ini)
        cfg.read(ini)
        for sec, opt, val in overrides:
            if not cfg.has_section(sec):
                cfg.add_section(sec)
            cfg.set(sec, opt, val)
    else:
        cfg.read(ini)
    scratch = tempfile.mkdtemp(prefix="verif-mon-")
    for sec in cfg.sections():
        if cfg.has_option(sec, "filename"):
            if "OutputHandler" in sec:
                cfg.set(sec, "filename", os.path.join(scratch, "out_" + sec + ".dat"))
            else:
                cfg.set(sec, "filename", os.path.join(base, cfg.get(sec, "filename")))
    random.seed(seed)
    rec = Recorder()
    state = {"n": 0, "depth": 0}
    monitors = [mon.MONITORS[m](rec) for m in monitor_names if m in mon.MONITORS]
    patches = []
    for m in monitors:
        patches.extend(m.patches())
    orig_insert = TreeStateHandler.insert_into_global_state

    def counted_insert(self, st):
        if state["depth"] == 0:
            state["n"] += 1
            if state["n"] > nmax:
                raise EndOfRun
        state["depth"] += 1
        outer = state["depth"] == 1
        try:
            if outer:
                for m in monitors:
                    m.before_commit(self, st, state["n"])
            r = orig_insert(self, st)
            if outer:
                for m in monitors:
                    m.after_commit(self, st, state["n"])
            return r
        finally:
            state["depth"] -= 1
    sys.argv[1:] = [ini]
    err = None
    t0 = time.time()
    with contextlib.ExitStack() as stack:
        stack.enter_context(mock.patch("jellyfysh.run.read_config", return_value=cfg))
        stack.enter_context(mock.patch.object(TreeStateHandler, "insert_into_global_state", counted_insert))
        for p in patches:
            stack.enter_context(p)
        with open(os.devnull, "w") as dn, contextlib.redirect_stdout(dn):
            try:
                run.main()
            except EndOfRun:
                pass
            except Exception as e:   # noqa
                tb = traceback.format_exc()
                if "/jellyfysh/" in tb.split("run.main()")[-1]:
                    # the simulated run itself broke down: a symptom of a violated history property
                    rec.violate("run", "*", "the run aborted with %s: %s" % (type(e).__name__, str(e)[:160]),
                                {"commit": state["n"], "traceback_tail": tb[-600:]})
                else:
                    err = "%s: %s\n%s" % (type(e).__name__, e, tb[-1500:])
    import shutil
    shutil.rmtree(scratch, ignore_errors=True)
    return {"config": label or os.path.relpath(ini, base), "events": min(state["n"], nmax), "evaluations": rec.evaluations,
            "violations": rec.violations, "samples": rec.samples[:3], "error": err, "seconds": round(time.time() - t0, 2)}


if __name__ == "__main__":
    ini, nmax, seed, names = sys.argv[1], int(sys.argv[2]), int(sys.argv[3]), sys.argv[4].split(",")
    try:
        res = run_config(ini, nmax, seed, names)
    except Exception as e:   # noqa
        res = {"config": ini, "events": 0, "evaluations": {}, "violations": [], "error": "%s: %s\n%s" % (
            type(e).__name__, e, traceback.format_exc()[-1500:])}
    print("MONITOR-RESULT " + json.dumps(res, default=str))
