"""Unit provider: the run-time monitors as a BOUNDED stand-in unit of a property (labelled, never counted as proved)."""
import time

from pyvc.runner import UnitResult
from monitors.run_all import run_monitors, configs

WHICH = {
    "C07": (["motion"], ["C07"]),
    "C12": (["motion"], ["C12"]),
    "C13": (["motion"], ["C13"]),
    "C08": (["activation"], ["C08"]),
    "C09": (["activation"], ["C09"]),
    "C11": (["activation"], ["C11", "C16"]),
    "C10": (["activation"], ["C10"]),
    "C17": (["sampling", "motion"], ["C17"]),
}


def bounded(prop, tier, seed, timeout_ms, only=None, **_):
    if only and "monitor" not in only:
        return []
    names, props = WHICH[prop]
    nmax = 4000 if tier == "quick" else 40000
    t0 = time.time()
    res = run_monitors(names, nmax, seed)
    u = UnitResult("monitor:%s" % "+".join(names), kind="bounded")
    u.props = [prop]
    u.model_name = "native"
    evals, viols, errors, events = 0, [], [], 0
    samples = []
    for r in res:
        events += r.get("events", 0)
        for k, v in r.get("evaluations", {}).items():
            if k.split("-")[0] in props:
                evals += v
        for v in r.get("violations", []):
            if v["property"] in props or v["property"] == "*":
                v = dict(v, config=r["config"])
                viols.append(v)
        if r.get("error"):
            errors.append("%s: %s" % (r["config"], r["error"][-300:]))
        if len(samples) < 3:
            samples.append({"config": r["config"], "events": r.get("events"), "evaluations": r.get("evaluations")})
    u.evaluations = evals
    u.distinct = len([r for r in res if r.get("events", 0) > 0])
    u.rule = ("every committed event of every runnable shipped configuration (%d of them; 2 need MDAnalysis) up to %d events, seed %d: "
              "contract clauses evaluated on the real objects; a case = one (configuration, event) pair, distinct = configurations run"
              % (len(res), nmax, seed))
    u.samples = samples
    u.detail = "BOUNDED: %d configurations x <=%d committed events, seed %d; %d clause evaluations" % (len(res), nmax, seed, evals)
    u.monitor_violations = viols
    u.seconds = time.time() - t0
    if errors:
        u.status = "crash"
        u.detail += " | errors: " + " || ".join(errors[:2])
    elif viols:
        u.status = "failed"
    else:
        u.status = "held"
    return [u]
