"""Runs the monitor harness over the shipped configurations in parallel and returns the merged result."""
import concurrent.futures as cf
import sys as _sys, os as _os
_sys.path.insert(0, _os.path.dirname(_os.path.dirname(_os.path.abspath(__file__))))
import glob
import json
import os
import subprocess
import sys

ROOT = os.path.dirname(os.path.dirname(os.path.abspath(__file__)))
REPO = os.environ.get("VERIF_REPO", "/repo")
NEEDS_MDANALYSIS = ("hard_disk_dipoles.ini", "hard_disk_dipoles_cells.ini")


def configs():
    base = os.path.join(REPO, "jellyfysh", "config_files")
    out = sorted(glob.glob(os.path.join(base, "**", "*.ini"), recursive=True))
    from monitors.generated import GENERATED
    return [c for c in out if os.path.basename(c) not in NEEDS_MDANALYSIS] + sorted(GENERATED)


def run_one(args):
    ini, nmax, seed, names = args
    env = dict(os.environ, PYTHONPATH="%s:%s" % (REPO, ROOT), VERIF_REPO=REPO)
    try:
        p = subprocess.run([sys.executable, "-m", "monitors.harness", ini, str(nmax), str(seed), ",".join(names)],
                           capture_output=True, text=True, env=env, cwd=ROOT, timeout=1800)
    except subprocess.TimeoutExpired:
        return {"config": ini, "events": 0, "evaluations": {}, "violations": [], "error": "timeout"}
    for line in p.stdout.splitlines():
        if line.startswith("MONITOR-RESULT "):
            return json.loads(line[len("MONITOR-RESULT "):])
    return {"config": ini, "events": 0, "evaluations": {}, "violations": [], "error": "no result: " + (p.stderr or "")[-800:]}


def run_monitors(names, nmax, seed, only=None, jobs=14):
    # build the C extensions once, from the current sources (the harness processes then find them in the cache)
    env = dict(os.environ, PYTHONPATH="%s:%s" % (REPO, ROOT), VERIF_REPO=REPO)
    b = subprocess.run([sys.executable, "-c", "from monitors.harness import build_c_extensions; build_c_extensions()"],
                       capture_output=True, text=True, env=env, cwd=ROOT)
    if b.returncode != 0:
        return [{"config": "(build of the C extensions)", "events": 0, "evaluations": {}, "violations": [],
                 "error": "C extension build failed: " + (b.stderr or "")[-600:]}]
    todo = [(c, nmax, seed, names) for c in configs() if not only or only in c]
    with cf.ThreadPoolExecutor(max_workers=jobs) as ex:
        return list(ex.map(run_one, todo))


if __name__ == "__main__":
    names = sys.argv[1].split(",")
    nmax = int(sys.argv[2]) if len(sys.argv) > 2 else 500
    for r in run_monitors(names, nmax, 0, only=sys.argv[3] if len(sys.argv) > 3 else None):
        print(r["config"], "events", r["events"], r["evaluations"], "VIOL" if r["violations"] else "", (r["error"] or "")[-300:])
        for v in r["violations"][:3]:
            print("    ", v)
